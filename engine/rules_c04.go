package main

import (
	"fmt"
	"go/token"
	"go/types"
	"sort"

	"golang.org/x/tools/go/ssa"
)

func init() { register("C04", c04r1, c04r2, c04r3, c04r4, c04r5) }

// C04-R1: single choke points for connection I/O (shared idea with C19-R1: c04ChokePoints takes the rule id).
func c04r1(c *Ctx) {
	const rule = "C04-R1"
	c.Doc(rule, "who-may-call: Stream.writer is used only by writeWithContext and Stream.reader only by readWithContext, both assigned only by NewStream/SetConnection; writeWithContext is called only by sendMessageWithEnd, readWithContext only by ReceiveFrame/ReceiveFrameWithEnd; no Read/Write on Stream.conn or on GetConnection()'s result - so every byte on the connection passes the functions that feed the handshake digests")
	n := c04ChokePoints(c, rule)
	c.MinCount(rule, "call sites / field accesses / connection loads inspected", n, 6)
}

// C04-R2: every cleartext byte sent/received before the freeze feeds the direction's digest.
// Evaluated on the inlined view of the three anchored functions (help_c12.go): the guard, the hash writes and
// the flag store may sit in the function itself or in same-module helpers it calls (a tracking method, a
// "digest still running" predicate, a header-reading helper, a variadic "hash these parts" method).
func c04r2(c *Ctx) {
	const rule = "C04-R2"
	c.Doc(rule, "digest fed: in sendMessageWithEnd every path to the connection write passes the 'send digest frozen' edge or hash writes of the whole 5-byte header AND of the data parameter (or the len(data)==0 edge) AND the store sendDigestWritten=true; in both receivers every success return passes the 'recv digest frozen' edge or hash writes of the whole header buffer read from the wire AND of a slice that flows into the returned one (or the wire-length==0 edge) AND recvDigestWritten=true; the header is hashed before the payload; 'digest == nil' branches are pruned only under the constructor invariant (sole writer NewStream storing sha256.New(), no Stream allocated elsewhere); same-module helpers called by these functions are followed (depth 4)")
	a := c04Anchors(c, rule)
	put := c.c01BinaryMethod(rule, "BigEndian", "PutUint32")
	if !a.ok || put == nil {
		return
	}
	n := 0
	newX := func(fields ...*types.Var) *c04X {
		x := c04NewX(c.Prog, a.wwc, a.rwc, a.enc, a.dec)
		return x
	}
	// frozen: the outcome of a test of the final digest on which it is set; under the constructor invariant
	// the "running digest is nil" outcome is dead as well
	baseCond := func(final, digest *types.Var, ctorOK bool) func(*c04XState, c04XAtom, bool) bool {
		return func(_ *c04XState, at c04XAtom, truth bool) bool {
			if on, ok := c04AtomField(at, final, truth); ok && on {
				return true
			}
			if ctorOK {
				if on, ok := c04AtomField(at, digest, truth); ok && !on {
					return true
				}
			}
			return false
		}
	}
	or := func(fs ...func(*c04XState, c04XAtom, bool) bool) func(*c04XState, c04XAtom, bool) bool {
		return func(st *c04XState, at c04XAtom, truth bool) bool {
			for _, f := range fs {
				if f != nil && f(st, at, truth) {
					return true
				}
			}
			return false
		}
	}
	// order: within one invocation no header write is reachable after a payload write
	order := func(x *c04X, root *c04Frame, isHdr, isData func(*c04XState, ssa.Instruction) bool) {
		good := true
		var pos token.Pos
		for _, d := range x.Reach(root.Entry(), &c04XQuery{}, isData) {
			if hit := x.Search(d.After(), &c04XQuery{Target: isHdr}); hit != nil {
				good, pos = false, d.Instr().Pos()
			}
		}
		c.Check(good, rule, fnName(root.Fn)+"#hash-order", "the header is hashed before the payload", "the payload is hashed before the header: the digest differs from the peer's, which hashes header then payload", pos)
	}
	overflow := func(x *c04X, fn *ssa.Function) {
		if x.Overflow {
			c.Undecided(rule, fnName(fn)+"#search", "the inlined control flow of this function is too large to search exhaustively", fn.Pos())
		}
	}
	// --- sender
	{
		fn := a.send
		x := newX(a.sendDigest, a.finalSend, a.sendWritten)
		root := x.Root(fn)
		base := baseCond(a.finalSend, a.sendDigest, c04DigestCtor(c, rule, a, a.sendDigest))
		data := c01Param(fn, "data", 2)
		dataV := c04XV{root, data}
		// headers: local arrays that receive the big-endian length
		headers := map[c04XV]bool{}
		root.Walk(func(fr *c04Frame, in ssa.Instruction) {
			if call, ok := isCallTo(in, put); ok {
				args := callArgs(call)
				r, _ := x.WholeOf(nil, fr, args[len(args)-2])
				headers[r] = true
			}
		})
		isHdr := func(st *c04XState, in ssa.Instruction) bool {
			arg, ok := c04IsHashWrite(in, a.sendDigest)
			if !ok {
				return false
			}
			r, whole := x.WholeOf(st, st.Fr, arg)
			return headers[r] && whole
		}
		isData := func(st *c04XState, in ssa.Instruction) bool {
			arg, ok := c04IsHashWrite(in, a.sendDigest)
			return ok && data != nil && x.Canon(st, st.Fr, arg) == dataV
		}
		root.Walk(func(fr *c04Frame, in ssa.Instruction) {
			if _, ok := c04IsHashWrite(in, a.sendDigest); ok {
				st := &c04XState{Fr: fr, B: in.Block()}
				if !isHdr(st, in) && !isData(st, in) {
					c.Note("%s: %s: a send-digest write at %s hashes neither the whole header nor the data parameter", rule, fnName(fn), c.Pos(in.Pos()))
				}
			}
		})
		// len(data) == 0: nothing to hash
		dataZero := func(st *c04XState, at c04XAtom, truth bool) bool {
			r, zero, ok := c04AtomZero(at, truth)
			return ok && zero && data != nil && x.ZeroRoot(st, at.Fr, r) == dataV
		}
		isFlag := func(_ *c04XState, in ssa.Instruction) bool { return c04IsTrueStore(in, a.sendWritten) }
		order(x, root, isHdr, isData)
		isWrite := func(_ *c04XState, in ssa.Instruction) bool {
			_, ok := isCallTo(in, a.wwc.Object())
			return ok
		}
		sites := 0
		pos := fn.Pos()
		root.Walk(func(_ *c04Frame, in ssa.Instruction) {
			if isWrite(nil, in) {
				sites++
				pos = in.Pos()
			}
		})
		n += sites
		if sites > 0 {
			for _, k := range []struct {
				key, what string
				q         *c04XQuery
			}{
				{"#write<-hash(header)", "a send-digest write of the whole frame header, or the digest-frozen edge", &c04XQuery{Target: isWrite, CutInstr: isHdr, CutCond: base}},
				{"#write<-hash(data)", "a send-digest write of the data parameter, the len(data)==0 edge, or the digest-frozen edge", &c04XQuery{Target: isWrite, CutInstr: isData, CutCond: or(base, dataZero)}},
				{"#write<-sendDigestWritten", "sendDigestWritten=true, or the digest-frozen edge", &c04XQuery{Target: isWrite, CutInstr: isFlag, CutCond: base}},
			} {
				if ok, path := x.Blocked(root.Entry(), k.q); ok {
					c.Ok(rule, fnName(fn)+k.key, "every path to it passes "+k.what, pos)
				} else {
					c.Violate(rule, fnName(fn)+k.key, "reachable without passing "+k.what, pos, c.describePath(path)...)
				}
			}
		}
		overflow(x, fn)
	}
	// --- receivers
	ctorOK := c04DigestCtor(c, rule, a, a.recvDigest)
	for _, fn := range []*ssa.Function{a.rf, a.rfe} {
		x := newX(a.recvDigest, a.finalRecv, a.recvWritten)
		root := x.Root(fn)
		base := baseCond(a.finalRecv, a.recvDigest, ctorOK)
		infeas := map[*ssa.Function]map[Edge]string{}
		cutEdge := func(st *c04XState, e Edge) bool {
			m, ok := infeas[st.Fr.Fn]
			if !ok {
				m = infeasibleEdges(st.Fr.Fn)
				infeas[st.Fr.Fn] = m
			}
			_, bad := m[e]
			return bad
		}
		// header buffer = fixed-size buffer filled by readWithContext; payload = buffer sized by a value read from it
		var hdr, wireLen c04XV
		haveHdr, haveLen := false, false
		root.Walk(func(fr *c04Frame, in ssa.Instruction) {
			if r, ok := isCallTo(in, a.rwc.Object()); ok {
				buf, _ := x.WholeOf(nil, fr, r.Common().Args[2])
				switch t := buf.V.(type) {
				case *ssa.Alloc:
					hdr, haveHdr = buf, true
				case *ssa.MakeSlice:
					if _, isC := constInt(t.Len); isC {
						hdr, haveHdr = buf, true
					} else {
						wireLen, haveLen = x.CanonInt(nil, buf.Fr, t.Len), true
					}
				}
			}
		})
		if !haveHdr || !haveLen {
			c.Undecided(rule, fnName(fn)+"#buffers", "cannot identify the header buffer and the payload buffer read from the wire", fn.Pos())
			continue
		}
		isHdr := func(st *c04XState, in ssa.Instruction) bool {
			arg, ok := c04IsHashWrite(in, a.recvDigest)
			if !ok {
				return false
			}
			r, whole := x.WholeOf(st, st.Fr, arg)
			return r == hdr && whole
		}
		isOther := func(st *c04XState, in ssa.Instruction) bool {
			_, ok := c04IsHashWrite(in, a.recvDigest)
			return ok && !isHdr(st, in)
		}
		isFlag := func(_ *c04XState, in ssa.Instruction) bool { return c04IsTrueStore(in, a.recvWritten) }
		order(x, root, isHdr, isOther)
		lenZero := func(st *c04XState, at c04XAtom, truth bool) bool {
			r, zero, ok := c04AtomZero(at, truth)
			return ok && zero && x.ZeroRoot(st, at.Fr, r) == wireLen
		}
		tg := c.successTargets(fn)
		n += len(tg)
		if len(tg) == 0 {
			c.Undecided(rule, fnName(fn)+"#returns", "no success return found", fn.Pos())
		}
		byOrd := map[int][]RetPoint{}
		var ords []int
		for _, t := range tg {
			o := retOrdinal(fn, t.Ret)
			if _, ok := byOrd[o]; !ok {
				ords = append(ords, o)
			}
			byOrd[o] = append(byOrd[o], t)
		}
		sort.Ints(ords)
		for _, o := range ords {
			ts := byOrd[o]
			ret := ts[0].Ret
			isRet := func(st *c04XState, in ssa.Instruction) bool {
				_, ok := x.SuccessReturn(st, in, ts)
				return ok
			}
			construct := fmt.Sprintf("%s#return%d", fnName(fn), o)
			if ok, path := x.Blocked(root.Entry(), &c04XQuery{Target: isRet, CutInstr: isHdr, CutCond: base, CutEdge: cutEdge}); ok {
				c.Ok(rule, construct, "every path to this return passes a recv-digest write of the whole header read from the wire, or the digest-frozen edge", ret.Pos())
			} else {
				c.Violate(rule, construct, "a path reaches this return without passing a recv-digest write of the whole header read from the wire, or the digest-frozen edge", ret.Pos(), c.describePath(path)...)
			}
			// data: the hashed slice must be the returned one
			retOrigins := map[c04XV]bool{}
			for _, o := range x.Origins(nil, root, ret.Results[0]) {
				retOrigins[o] = true
			}
			retCanon := x.Canon(nil, root, ret.Results[0])
			isData := func(st *c04XState, in ssa.Instruction) bool {
				arg, ok := c04IsHashWrite(in, a.recvDigest)
				if !ok {
					return false
				}
				if x.Canon(st, st.Fr, arg) == retCanon {
					return true
				}
				for _, o := range x.Origins(st, st.Fr, arg) {
					if retOrigins[o] {
						return true
					}
				}
				return false
			}
			construct = fmt.Sprintf("%s#return%d/hash(data)", fnName(fn), o)
			if ok, path := x.Blocked(root.Entry(), &c04XQuery{Target: isRet, CutInstr: isData, CutCond: or(base, lenZero), CutEdge: cutEdge}); ok {
				c.Ok(rule, construct, "the returned bytes were hashed", ret.Pos())
			} else {
				c.Violate(rule, construct, "a path returns received bytes without feeding them to the receive digest (nor passing the wire-length==0 or digest-frozen edge)", ret.Pos(), c.describePath(path)...)
			}
			construct = fmt.Sprintf("%s#return%d/recvDigestWritten", fnName(fn), o)
			if ok, path := x.Blocked(root.Entry(), &c04XQuery{Target: isRet, CutInstr: isFlag, CutCond: base, CutEdge: cutEdge}); ok {
				c.Ok(rule, construct, "recvDigestWritten is set on every hashing path", ret.Pos())
			} else {
				c.Violate(rule, construct, "a path accepts a cleartext frame without recording recvDigestWritten=true: the frozen digest would be the all-zero block although bytes were received", ret.Pos(), c.describePath(path)...)
			}
		}
		overflow(x, fn)
	}
	c.MinCount(rule, "connection writes + receiver success returns", n, 3)
}

// C04-R3: freeze at key install. Evaluated on the inlined views of SetSymmetricKey and of the two finalizers:
// the freeze may be a call of the finalizer, a helper that calls both, or the finalizer's body itself.
func c04r3(c *Ctx) {
	const rule = "C04-R3"
	c.Doc(rule, "freeze: in SetSymmetricKey (with its same-module helpers inlined) every path to the store encrypted=true passes, for each direction, a store of final<Dir>Digest or the edge on which it is already set (= finalizeSendDigest and finalizeRecvDigest ran); final*Digest are written only by their finalizer (or helpers only it calls) and the state importer; each finalizer stores digest.Sum only on the '<dir>DigestWritten' edge and the 32-byte zero block only on the not-written edge; *DigestWritten are written only by the frame sender/receivers (or helpers only they call) and the importer")
	a := c04Anchors(c, rule)
	if !a.ok {
		return
	}
	n := 0
	// before encrypted = true, both directions are frozen
	{
		x := c04NewX(c.Prog)
		root := x.Root(a.ssk)
		isEnc := func(st *c04XState, in ssa.Instruction) bool { return x.IsTrueStore(st, in, a.encrypted) }
		var pos token.Pos
		root.Walk(func(fr *c04Frame, in ssa.Instruction) {
			if isEnc(&c04XState{Fr: fr, B: in.Block()}, in) {
				n++
				pos = in.Pos()
			}
		})
		if n > 0 {
			for _, d := range []struct {
				fin   *ssa.Function
				final *types.Var
			}{{a.finS, a.finalSend}, {a.finR, a.finalRecv}} {
				final := d.final
				q := &c04XQuery{Target: isEnc,
					CutInstr: func(_ *c04XState, in ssa.Instruction) bool { return storeHit(final)(in) },
					CutCond: func(_ *c04XState, at c04XAtom, truth bool) bool {
						on, ok := c04AtomField(at, final, truth)
						return ok && on
					}}
				key := fnName(a.ssk) + "#encrypted=true<-" + d.fin.Name()
				if ok, path := x.Blocked(root.Entry(), q); ok {
					c.Ok(rule, key, "every path to it passes the freeze of "+final.Name()+" (a call of "+d.fin.Name()+")", pos)
				} else {
					c.Violate(rule, key, "reachable without passing a call of "+d.fin.Name()+" (no store of "+final.Name()+" and no test that it is already set on the way)", pos, c.describePath(path)...)
				}
			}
		}
		if x.Overflow {
			c.Undecided(rule, fnName(a.ssk)+"#search", "the inlined control flow of SetSymmetricKey is too large to search exhaustively", a.ssk.Pos())
		}
	}
	c.MinCount(rule, "encrypted=true stores in SetSymmetricKey", n, 1)
	// writers
	poss := map[*ssa.Function]token.Pos{}
	writers := func(f *types.Var) []*ssa.Function {
		var wr []*ssa.Function
		for _, acc := range c.fieldAccesses(f) {
			if acc.Write {
				wr = append(wr, acc.Fn)
				poss[acc.Fn] = acc.Instr.Pos()
			}
		}
		return wr
	}
	c.whoMayDeep(rule, "write Stream.sendDigestWritten", writers(a.sendWritten), poss, fnSet(a.send, a.imp))
	c.whoMayDeep(rule, "write Stream.recvDigestWritten", writers(a.recvWritten), poss, fnSet(a.rf, a.rfe, a.imp))
	// finalizers
	type dir struct {
		fin                    *ssa.Function
		digest, final, written *types.Var
	}
	// freeze decides, for the stores of final<Dir>Digest in the inlined view of fn, that digest.Sum is taken
	// only on the written edge and the zero block only on the not-written edge; with once set (a function that
	// is not the finalizer itself) also that the store happens only while the digest is not yet frozen.
	freeze := func(d dir, fn *ssa.Function, once bool) (k int, good bool) {
		good = true
		violate := func(key, msg string, pos token.Pos, wit ...string) {
			good = false
			c.Violate(rule, key, msg, pos, wit...)
		}
		x := c04NewX(c.Prog)
		root := x.Root(fn)
		type site struct {
			fr *c04Frame
			st *ssa.Store
		}
		var sites []site
		root.Walk(func(fr *c04Frame, in ssa.Instruction) {
			if storeHit(d.final)(in) {
				sites = append(sites, site{fr, in.(*ssa.Store)})
			}
		})
		for _, s := range sites {
			k++
			st := s.st
			// the condition is demanded where the value is produced (the Sum call / the fresh buffer): the store
			// itself may be unconditional when a value helper or a conditional expression chooses the value
			checkAt := func(sfr *c04Frame, sin ssa.Instruction, key, what string, cut func(*c04XState, c04XAtom, bool) bool) {
				at := func(ps *c04XState, in ssa.Instruction) bool { return in == sin && ps.Fr == sfr }
				if ok, path := x.Blocked(root.Entry(), &c04XQuery{Target: at, CutCond: cut}); ok {
					c.Ok(rule, fnName(fn)+key, "every path to it passes "+what, st.Pos())
				} else {
					violate(fnName(fn)+key, "reachable without passing "+what, st.Pos(), c.describePath(path)...)
				}
			}
			check := func(site c04XV, key, what string, cut func(*c04XState, c04XAtom, bool) bool) {
				sin, _ := site.V.(ssa.Instruction)
				checkAt(site.Fr, sin, key, what, cut)
			}
			if once {
				checkAt(s.fr, st, "#store-once", "the edge on which "+d.final.Name()+" is still nil (a frozen digest is never overwritten)", func(_ *c04XState, a c04XAtom, truth bool) bool {
					on, ok := c04AtomField(a, d.final, truth)
					return ok && !on
				})
			}
			bad := false
			for _, o := range x.Origins(nil, s.fr, st.Val) {
				isSum, isZero := false, false
				if call, _ := originCall(o.V); call != nil {
					cc := call.Common()
					if cc.IsInvoke() && cc.Method.Name() == "Sum" && readsField(x.Canon(nil, o.Fr, cc.Value).V, d.digest) {
						isSum = true
					}
				}
				if al, ok := o.V.(*ssa.Alloc); ok {
					if arr, ok := al.Type().Underlying().(*types.Pointer).Elem().Underlying().(*types.Array); ok && arr.Len() == 32 && c04NeverWritten(al) {
						isZero = true
					}
				}
				if ms, ok := o.V.(*ssa.MakeSlice); ok {
					if ln, isC := constInt(ms.Len); isC && ln == 32 && c04NeverWritten(ms) {
						isZero = true
					}
				}
				switch {
				case isSum:
					site := o
					if ex, ok := o.V.(*ssa.Extract); ok {
						site.V = ex.Tuple
					}
					check(site, "#store-Sum", "the edge on which "+d.written.Name()+" is true", func(_ *c04XState, a c04XAtom, truth bool) bool {
						on, ok := c04AtomField(a, d.written, truth)
						return ok && on
					})
				case isZero:
					// the digest==nil edge leads here too; it is dead under the constructor invariant (decided in R2)
					check(o, "#store-zero-block", "the edge on which "+d.written.Name()+" is false", func(_ *c04XState, a c04XAtom, truth bool) bool {
						if on, ok := c04AtomField(a, d.written, truth); ok && !on {
							return true
						}
						on, ok := c04AtomField(a, d.digest, truth)
						return ok && !on
					})
				default:
					bad = true
				}
			}
			if bad {
				good = false
				c.Undecided(rule, fnName(fn)+"#store", "the value frozen into "+d.final.Name()+" is neither digest.Sum(nil) nor a fresh 32-byte zero block", st.Pos())
			}
		}
		if x.Overflow {
			good = false
			c.Undecided(rule, fnName(fn)+"#search", "the inlined control flow of this function is too large to search exhaustively", fn.Pos())
		}
		return k, good
	}
	for _, d := range []dir{{a.finS, a.sendDigest, a.finalSend, a.sendWritten}, {a.finR, a.recvDigest, a.finalRecv, a.recvWritten}} {
		k, _ := freeze(d, d.fin, false)
		c.MinCount(rule, "stores to "+d.final.Name()+" in "+d.fin.Name(), k, 1)
		// writers: the finalizer (and helpers only it calls) and the importer; a function that today calls the
		// finalizer (key install, first protected frame) may instead carry the finalizer's body, provided its
		// stores obey the finalizer's rules and never overwrite a frozen digest
		allow := fnSet(d.fin, a.imp)
		inlineOK := fnSet(a.ssk, a.enc, a.dec)
		seen := map[*ssa.Function]bool{}
		for _, w := range writers(d.final) {
			t := topFn(w)
			if seen[t] {
				continue
			}
			seen[t] = true
			construct := "write Stream." + d.final.Name() + "@" + fnName(t)
			switch {
			case allow[t]:
				c.Ok(rule, construct, fnName(t)+" is an allowed site of write Stream."+d.final.Name(), poss[w])
			case c.onlyReachableFrom(t, allow):
				c.Ok(rule, construct, fnName(t)+" is a helper only reachable from the allowed sites", poss[w])
			case inlineOK[t] || c.onlyReachableFrom(t, inlineOK):
				okAll := true
				for _, r := range []*ssa.Function{a.ssk, a.enc, a.dec} {
					if r != t && (inlineOK[t] || !c.reachableFns([]*ssa.Function{r}, false)[t]) {
						continue
					}
					if _, good := freeze(d, r, true); !good {
						okAll = false
					}
				}
				if okAll {
					c.Ok(rule, construct, fnName(t)+" carries the finalizer's body: its stores obey the finalizer's rules", poss[w])
				} else {
					c.Violate(rule, construct, fnName(t)+" writes Stream."+d.final.Name()+" but not the way the finalizer does (allowed: "+allowNames(allow)+", or a copy of the finalizer's body in the key-install / first-frame functions)", poss[w])
				}
			default:
				c.Violate(rule, construct, fnName(t)+" must not write Stream."+d.final.Name()+" (allowed: "+allowNames(allow)+" and helpers only they call)", poss[w])
			}
		}
	}
}

// c04NeverWritten: no element store, copy-into or call argument use of the fresh buffer (it stays all-zero).
func c04NeverWritten(buf ssa.Value) bool {
	w, _ := addrUses(buf)
	if w {
		// addrUses counts "stored somewhere" (escape) as a write; a plain store of the slice into a field is not
		for _, r := range *buf.Referrers() {
			switch u := r.(type) {
			case *ssa.Slice:
				for _, r2 := range *u.Referrers() {
					if st, ok := r2.(*ssa.Store); ok && st.Val == ssa.Value(u) {
						continue
					}
					if _, ok := r2.(*ssa.DebugRef); ok {
						continue
					}
					return false
				}
			case *ssa.Store:
				if u.Val != buf {
					return false
				}
			case *ssa.DebugRef:
			default:
				return false
			}
		}
	}
	return true
}

// C04-R4: AAD layout mirrored. Evaluated on the inlined view of encryptDataWithAAD / decryptDataWithAAD.
func c04r4(c *Ctx) {
	const rule = "C04-R4"
	c.Doc(rule, "first-frame associated data: encryptDataWithAAD builds [0:32]<-finalSendDigest, [32:64]<-finalRecvDigest, [64:]<-header; decryptDataWithAAD the mirror image [0:32]<-finalRecvDigest, [32:64]<-finalSendDigest, [64:]<-header (oracle: the property's 'send||recv, mirrored on receive'); the first-frame branch is taken on the edge where finished{Send,Recv}AAD is false, every success path through it sets the flag, both digests are frozen before the AEAD call, and the flag is written nowhere else but SetSymmetricKey and the importer; same-module helpers of the two functions are followed")
	a := c04Anchors(c, rule)
	seal, open := c.aeadMethod04(rule, "Seal"), c.aeadMethod04(rule, "Open")
	if !a.ok || seal == nil || open == nil {
		return
	}
	n := 0
	for _, d := range []struct {
		fn          *ssa.Function
		aead        *types.Func
		flag        *types.Var
		first, next string
	}{{a.enc, seal, a.finishedSend, "finalSendDigest", "finalRecvDigest"}, {a.dec, open, a.finishedRecv, "finalRecvDigest", "finalSendDigest"}} {
		d := d
		fn := d.fn
		hdrPar := c01Param(fn, "frameHeader", 2)
		if hdrPar == nil {
			c.Undecided(rule, fnName(fn)+"#header-param", "no frame header parameter", fn.Pos())
			continue
		}
		hdr := "param:" + hdrPar.Name()
		x, root, aeads := c04AADView(c, a, fn, d.aead, d.flag)
		// the first-frame edge: the outcome of a test of the flag on which it is still false
		flagOff := func(_ *c04XState, at c04XAtom, truth bool) bool {
			on, ok := c04AtomField(at, d.flag, truth)
			return ok && !on
		}
		flagTests := 0
		root.Walk(func(_ *c04Frame, in ssa.Instruction) {
			if fa, ok := in.(*ssa.FieldAddr); ok && fieldOfAddr(fa) == d.flag {
				if w, r := addrUses(fa); r && !w {
					flagTests++
				}
			}
		})
		for _, s := range aeads {
			call := s.call
			n++
			lay, ok := c04AADLayout(x, root, s.fr, call, d.flag, hdrPar)
			if !ok {
				c.Undecided(rule, fnName(fn)+"#aad", "the associated data of "+d.aead.Name()+" is not a locally made buffer filled by copy() at constant offsets", call.Pos())
				continue
			}
			isAEAD := func(st *c04XState, in ssa.Instruction) bool { return in == call.(ssa.Instruction) && st.Fr == s.fr }
			firsts := 0
			for _, br := range lay {
				if !br.First {
					continue
				}
				firsts++
				want := []c04AADPart{{Lo: 0, Hi: 32, Src: "field:" + d.first}, {Lo: 32, Hi: 64, Src: "field:" + d.next}, {Lo: 64, Hi: -1, Src: hdr}}
				c.Check(c04LayoutIs(br, want) && br.LenConst == 64 && br.LenOfHdr, rule, fnName(fn)+"#first-frame-aad",
					"first-frame AAD is "+br.String(),
					fmt.Sprintf("first-frame AAD is {%s} (length %d+len(header)=%v); the format requires [0:32]<-%s, [32:64]<-%s, [64:]<-header: the peer's mirrored AAD will not match", br.String(), br.LenConst, br.LenOfHdr, d.first, d.next), call.Pos())
				// the first-frame flag: set on every path from the first-frame edge to a success return (so the
				// next frame uses the header-only AAD). Whether it is set before or after the AEAD call is not
				// demanded: setting it only once the frame has authenticated is at least as good.
				{
					stores := 0
					root.Walk(func(fr *c04Frame, in ssa.Instruction) {
						if x.IsTrueStore(&c04XState{Fr: fr, B: in.Block()}, in, d.flag) {
							stores++
						}
					})
					var tg []RetPoint
					for _, t := range c.successTargets(fn) {
						if ev := t.Ret.Results[len(t.Ret.Results)-1]; !isNilConst(ev) {
							continue
						}
						tg = append(tg, t)
					}
					okFlag, _ := x.Blocked(root.Entry(), &c04XQuery{
						Target: func(st *c04XState, in ssa.Instruction) bool {
							_, ok := x.SuccessReturn(st, in, tg)
							return ok
						},
						CutInstr: func(st *c04XState, in ssa.Instruction) bool { return x.IsTrueStore(st, in, d.flag) },
						MarkCond: flagOff, NeedMark: true,
					})
					c.Check(okFlag && stores > 0 && flagTests > 0, rule, fnName(fn)+"#first-frame=>"+d.flag.Name()+"=true", "every success path through the first-frame branch sets "+d.flag.Name(), "a frame can be processed on the first-frame edge and success returned without setting "+d.flag.Name()+": the digests would be bound into a second frame's associated data too and the peer's header-only AAD would not match", call.Pos())
				}
				for _, need := range []struct {
					what  string
					final *types.Var
				}{
					{"finalizeSendDigest()", a.finalSend},
					{"finalizeRecvDigest()", a.finalRecv},
				} {
					need := need
					okAll, _ := x.Blocked(root.Entry(), &c04XQuery{
						Target:   isAEAD,
						CutInstr: func(_ *c04XState, in ssa.Instruction) bool { return storeHit(need.final)(in) },
						CutCond: func(st *c04XState, at c04XAtom, truth bool) bool {
							on, ok := c04AtomField(at, need.final, truth)
							return ok && on
						},
						MarkCond: flagOff, NeedMark: true,
					})
					c.Check(okAll && flagTests > 0, rule, fnName(fn)+"#first-frame=>"+need.what, "done on the first-frame edge before "+d.aead.Name(), "on the first-frame edge "+d.aead.Name()+" can be reached without "+need.what+" (no freeze of "+need.final.Name()+" on the way)", call.Pos())
				}
			}
			c.Check(firsts == 1, rule, fnName(fn)+"#first-frame-branch", "exactly one AAD buffer is built on the first-frame edge", fmt.Sprintf("%d AAD buffers are built on the edge where %s is false (expected 1)", firsts, d.flag.Name()), call.Pos())
		}
		// inside the encrypt/decrypt function the flag only ever goes to true (it is cleared by key install / import only)
		root.Walk(func(fr *c04Frame, in ssa.Instruction) {
			if storeHit(d.flag)(in) {
				c.Check(x.IsTrueStore(&c04XState{Fr: fr, B: in.Block()}, in, d.flag), rule, fnName(fn)+"#"+d.flag.Name()+"-store", "the flag is only ever set to true here", "the first-frame flag is cleared or set to a computed value: a later frame could take the first-frame branch again", in.Pos())
			}
		})
		if x.Overflow {
			c.Undecided(rule, fnName(fn)+"#search", "the inlined control flow of this function is too large to search exhaustively", fn.Pos())
		}
		var wr []*ssa.Function
		poss := map[*ssa.Function]token.Pos{}
		for _, acc := range c.fieldAccesses(d.flag) {
			if acc.Write {
				wr = append(wr, acc.Fn)
				poss[acc.Fn] = acc.Instr.Pos()
			}
		}
		c.whoMayDeep(rule, "write Stream."+d.flag.Name(), wr, poss, fnSet(fn, a.ssk, a.imp))
	}
	c.MinCount(rule, "AEAD calls", n, 2)
}

// aeadMethod04 resolves crypto/cipher.AEAD.<name> (own copy so that C04/C12 build without rules_c02.go).
func (c *Ctx) aeadMethod04(rule, name string) *types.Func {
	tp := c.PkgTypes("crypto/cipher")
	if tp == nil {
		c.AnchorMissing(rule, "crypto/cipher")
		return nil
	}
	obj, _, _ := types.LookupFieldOrMethod(tp.Scope().Lookup("AEAD").Type(), false, tp, name)
	f, _ := obj.(*types.Func)
	if f == nil {
		c.AnchorMissing(rule, "crypto/cipher.AEAD."+name)
	}
	return f
}

// C04-R5: the first protected message follows key installation.
func c04r5(c *Ctx) {
	const rule = "C04-R5"
	c.Doc(rule, "first protected message: in performFullAuthentication (client) and ServerHandshakeWithMessage (server), with their same-module helpers inlined, every success return passes the nil-error edge of a setupStreamEncryption call and, after it, the nil-error edge of a read (client: GetClassAdWithMaxSize) resp. flush (server: FinishMessage) of the post-authentication message; the server's resumption branch delegates to handleSessionResumption (first protected message = first command)")
	setup := c.needFn(rule, "security", "(*Authenticator).setupStreamEncryption")
	cli := c.needFn(rule, "security", "(*Authenticator).performFullAuthentication")
	srv := c.needFn(rule, "security", "(*Authenticator).ServerHandshakeWithMessage")
	resume := c.needFn(rule, "security", "(*Authenticator).handleSessionResumption")
	get := c.needFn(rule, "message", "(*Message).GetClassAdWithMaxSize")
	fin := c.needFn(rule, "message", "(*Message).FinishMessage")
	if setup == nil || cli == nil || srv == nil || resume == nil || get == nil || fin == nil {
		return
	}
	n := 0
	for _, d := range []struct {
		fn, io *ssa.Function
		what   string
	}{{cli, get, "a successful read of the post-authentication ad"}, {srv, fin, "a successful flush of the post-authentication ad"}} {
		d := d
		fn := d.fn
		// helpers that install the key or perform the post-authentication I/O are followed
		x := c04NewX(c.Prog, setup, resume, get, fin)
		x.Relevant = func(in ssa.Instruction) bool {
			_, ok := isCallTo(in, setup.Object(), d.io.Object())
			return ok
		}
		x.MaxStates = 400000
		root := x.Root(fn)
		var tg []RetPoint
		for _, t := range c.successTargets(fn) {
			// exception (one symbol): "return a.handleSessionResumption(...)" - a resumed session has no
			// post-auth ad; its first protected message is the first command (C06 decides that path)
			if call, _ := originCall(t.Ret.Results[len(t.Ret.Results)-1]); call != nil && calleeFn(call) == resume {
				continue
			}
			tg = append(tg, t)
		}
		n += len(tg)
		isSetup := func(call ssa.CallInstruction) bool { return calleeFn(call) == setup }
		isIO := func(call ssa.CallInstruction) bool { return calleeFn(call) == d.io }
		setupNil := func(st *c04XState, at c04XAtom, truth bool) bool {
			isNil, ok := x.AtomCallNil(st, at, truth, isSetup)
			return ok && isNil
		}
		ioNil := func(st *c04XState, at c04XAtom, truth bool) bool {
			isNil, ok := x.AtomCallNil(st, at, truth, isIO)
			return ok && isNil
		}
		byOrd := map[int][]RetPoint{}
		var ords []int
		for _, t := range tg {
			o := retOrdinal(fn, t.Ret)
			if _, ok := byOrd[o]; !ok {
				ords = append(ords, o)
			}
			byOrd[o] = append(byOrd[o], t)
		}
		sort.Ints(ords)
		for _, o := range ords {
			ts := byOrd[o]
			isRet := func(st *c04XState, in ssa.Instruction) bool {
				_, ok := x.SuccessReturn(st, in, ts)
				return ok
			}
			construct := fmt.Sprintf("%s#return%d", fnName(fn), o)
			if ok, path := x.Blocked(root.Entry(), &c04XQuery{Target: isRet, CutCond: setupNil}); ok {
				c.Ok(rule, construct, "every path to this return passes a nil-error setupStreamEncryption call", ts[0].Ret.Pos())
			} else {
				c.Violate(rule, construct, "a path reaches this return without passing a nil-error setupStreamEncryption call", ts[0].Ret.Pos(), c.describePath(path)...)
			}
		}
		isAnyRet := func(st *c04XState, in ssa.Instruction) bool {
			_, ok := x.SuccessReturn(st, in, tg)
			return ok
		}
		okAll, wit := x.Blocked(root.Entry(), &c04XQuery{Target: isAnyRet, NeedMark: true, MarkCond: setupNil, CutCond: ioNil, CutAfterMark: true})
		c.Check(okAll, rule, fnName(fn)+"#post-auth-after-key", "after the key is installed every success path passes "+d.what,
			"after setupStreamEncryption a success return is reachable without "+d.what+": the handshake would end without a protected message that authenticates the transcript", fn.Pos(), c.describePath(wit)...)
		if x.Overflow {
			c.Undecided(rule, fnName(fn)+"#search", "the inlined control flow of this function is too large to search exhaustively", fn.Pos())
		}
		c.Note("%s: %s: largest search expanded %d states over %d frames", rule, fnName(fn), x.peak, len(root.Frames()))
	}
	c.MinCount(rule, "success returns of the two full-handshake functions", n, 2)
}
