package main

import (
	"fmt"
	"go/token"
	"go/types"

	"golang.org/x/tools/go/ssa"
)

func init() { register("C04", c04r1, c04r2, c04r3, c04r4, c04r5) }

// C04-R1: single choke points for connection I/O (shared idea with C19-R1: c04ChokePoints takes the rule id).
func c04r1(c *Ctx) {
	const rule = "C04-R1"
	c.Doc(rule, "who-may-call: Stream.writer is used only by writeWithContext and Stream.reader only by readWithContext, both assigned only by NewStream/SetConnection; writeWithContext is called only by sendMessageWithEnd, readWithContext only by ReceiveFrame/ReceiveFrameWithEnd; no Read/Write on Stream.conn or on GetConnection()'s result - so every byte on the connection passes the functions that feed the handshake digests")
	n := c04ChokePoints(c, rule)
	c.MinCount(rule, "call sites / field accesses / connection loads inspected", n, 20)
}

// C04-R2: every cleartext byte sent/received before the freeze feeds the direction's digest.
func c04r2(c *Ctx) {
	const rule = "C04-R2"
	c.Doc(rule, "digest fed: in sendMessageWithEnd every path to the connection write passes the 'send digest frozen' edge or hash writes of the whole 5-byte header AND of the data parameter (or the len(data)==0 edge) AND the store sendDigestWritten=true; in both receivers every success return passes the 'recv digest frozen' edge or hash writes of the whole header buffer read from the wire AND of a slice that flows into the returned one (or the wire-length==0 edge) AND recvDigestWritten=true; the header is hashed before the payload; 'digest == nil' branches are pruned only under the constructor invariant (sole writer NewStream storing sha256.New(), no Stream allocated elsewhere)")
	a := c04Anchors(c, rule)
	put := c.c01BinaryMethod(rule, "BigEndian", "PutUint32")
	if !a.ok || put == nil {
		return
	}
	n := 0
	// --- sender
	{
		fn := a.send
		cuts := func() *Cuts {
			_, frozen := fieldCondEdges(fn, a.finalSend)
			return newCuts().AddEdges(frozen...)
		}
		base := cuts()
		if c04DigestCtor(c, rule, a, a.sendDigest) {
			nilE, _ := fieldCondEdges(fn, a.sendDigest)
			base.AddEdges(nilE...)
		}
		data := c01Param(fn, "data", 2)
		// headers: local arrays that receive the big-endian length
		headers := map[ssa.Value]bool{}
		for _, call := range callsIn(fn, put) {
			args := callArgs(call)
			headers[memRoot(args[len(args)-2])] = true
		}
		hdrCuts, dataCuts, flagCuts := cuts(), cuts(), cuts()
		for _, cc := range []*Cuts{hdrCuts, dataCuts, flagCuts} {
			for e := range base.Edges {
				cc.AddEdges(e)
			}
		}
		for _, w := range c04HashWrites(fn, a.sendDigest) {
			arg := w.Common().Args[0]
			switch {
			case headers[memRoot(arg)] && c04WholeOf(arg, memRoot(arg)):
				hdrCuts.AddInstrs(w)
			case data != nil && arg == ssa.Value(data):
				dataCuts.AddInstrs(w)
			default:
				c.Note("%s: %s: a send-digest write at %s hashes neither the whole header nor the data parameter", rule, fnName(fn), c.Pos(w.Pos()))
			}
		}
		// len(data) == 0: nothing to hash
		for _, b := range fn.Blocks {
			if root, zero, _, ok := zeroEdges(b); ok {
				if call, isLen := c01IsBuiltin(root, "len"); isLen && data != nil && call.Call.Args[0] == ssa.Value(data) {
					dataCuts.AddEdges(zero)
				}
			}
		}
		flagCuts.AddInstrs(c04TrueStores(fn, a.sendWritten)...)
		c04Order(c, rule, fn, hdrCuts, dataCuts)
		for _, w := range callsIn(fn, a.wwc.Object()) {
			n++
			c.mustPassInstr(rule, fnName(fn)+"#write<-hash(header)", fn, w, hdrCuts, "a send-digest write of the whole frame header, or the digest-frozen edge")
			c.mustPassInstr(rule, fnName(fn)+"#write<-hash(data)", fn, w, dataCuts, "a send-digest write of the data parameter, the len(data)==0 edge, or the digest-frozen edge")
			c.mustPassInstr(rule, fnName(fn)+"#write<-sendDigestWritten", fn, w, flagCuts, "sendDigestWritten=true, or the digest-frozen edge")
		}
	}
	// --- receivers
	ctorOK := c04DigestCtor(c, rule, a, a.recvDigest)
	for _, fn := range []*ssa.Function{a.rf, a.rfe} {
		_, frozen := fieldCondEdges(fn, a.finalRecv)
		base := newCuts().AddEdges(frozen...)
		if ctorOK {
			nilE, _ := fieldCondEdges(fn, a.recvDigest)
			base.AddEdges(nilE...)
		}
		for e := range infeasibleEdges(fn) {
			base.AddEdges(e)
		}
		// header buffer = fixed-size buffer filled by readWithContext; payload = MakeSlice-sized one
		var hdr ssa.Value
		var wireLen ssa.Value
		for _, r := range callsIn(fn, a.rwc.Object()) {
			root := memRoot(r.Common().Args[2])
			switch x := root.(type) {
			case *ssa.Alloc:
				hdr = x
			case *ssa.MakeSlice:
				wireLen = c01Strip(x.Len)
			}
		}
		if hdr == nil || wireLen == nil {
			c.Undecided(rule, fnName(fn)+"#buffers", "cannot identify the header buffer and the payload buffer read from the wire", fn.Pos())
			continue
		}
		clone := func() *Cuts {
			cc := newCuts()
			for e := range base.Edges {
				cc.AddEdges(e)
			}
			return cc
		}
		hdrCuts, flagCuts := clone(), clone()
		writes := c04HashWrites(fn, a.recvDigest)
		for _, w := range writes {
			arg := w.Common().Args[0]
			if memRoot(arg) == hdr && c04WholeOf(arg, hdr) {
				hdrCuts.AddInstrs(w)
			}
		}
		flagCuts.AddInstrs(c04TrueStores(fn, a.recvWritten)...)
		dataW := newCuts()
		for _, w := range writes {
			if !hdrCuts.Instrs[w] {
				dataW.AddInstrs(w)
			}
		}
		c04Order(c, rule, fn, hdrCuts, dataW)
		var zeroE []Edge
		for _, b := range fn.Blocks {
			if root, zero, _, ok := zeroEdges(b); ok && c01Strip(root) == wireLen {
				zeroE = append(zeroE, zero)
			}
		}
		tg := c.successTargets(fn)
		n += len(tg)
		c.mustPassReturns(rule, fn, tg, hdrCuts, "a recv-digest write of the whole header read from the wire, or the digest-frozen edge")
		// data: per return, the hashed slice must be the returned one
		for _, t := range tg {
			dataCuts := clone().AddEdges(zeroE...)
			for _, w := range writes {
				if c04SameData(fn, w.Common().Args[0], t.Ret.Results[0]) {
					dataCuts.AddInstrs(w)
				}
			}
			construct := fmt.Sprintf("%s#return%d/hash(data)", fnName(fn), retOrdinal(fn, t.Ret))
			if p := findPath(entryPoint(fn), t.Target(), dataCuts); p != nil {
				c.Violate(rule, construct, "a path returns received bytes without feeding them to the receive digest (nor passing the wire-length==0 or digest-frozen edge)", t.Ret.Pos(), c.describePath(p)...)
			} else {
				c.Ok(rule, construct, "the returned bytes were hashed", t.Ret.Pos())
			}
			construct = fmt.Sprintf("%s#return%d/recvDigestWritten", fnName(fn), retOrdinal(fn, t.Ret))
			if p := findPath(entryPoint(fn), t.Target(), flagCuts); p != nil {
				c.Violate(rule, construct, "a path accepts a cleartext frame without recording recvDigestWritten=true: the frozen digest would be the all-zero block although bytes were received", t.Ret.Pos(), c.describePath(p)...)
			} else {
				c.Ok(rule, construct, "recvDigestWritten is set on every hashing path", t.Ret.Pos())
			}
		}
	}
	c.MinCount(rule, "connection writes + receiver success returns", n, 5)
}

// c04Order: within one invocation the header is hashed before the payload (the peer hashes
// header||payload per frame): no header write is reachable from a payload write.
func c04Order(c *Ctx, rule string, fn *ssa.Function, hdr, data *Cuts) {
	good := true
	var pos token.Pos
	for d := range data.Instrs {
		for h := range hdr.Instrs {
			if findPath(after(d), Target{Instr: h}, nil) != nil {
				good, pos = false, d.Pos()
			}
		}
	}
	c.Check(good, rule, fnName(fn)+"#hash-order", "the header is hashed before the payload", "the payload is hashed before the header: the digest differs from the peer's, which hashes header then payload", pos)
}

// C04-R3: freeze at key install.
func c04r3(c *Ctx) {
	const rule = "C04-R3"
	c.Doc(rule, "freeze: SetSymmetricKey calls finalizeSendDigest and finalizeRecvDigest on every path before it stores encrypted=true; final*Digest are written only by their finalizer and the state importer; each finalizer stores digest.Sum only on the '<dir>DigestWritten' edge and the 32-byte zero block only on the not-written edge; *DigestWritten are written only by the frame sender/receivers and the importer")
	a := c04Anchors(c, rule)
	if !a.ok {
		return
	}
	n := 0
	// before encrypted = true, both finalizers ran
	for _, st := range c04TrueStores(a.ssk, a.encrypted) {
		n++
		for _, fin := range []*ssa.Function{a.finS, a.finR} {
			cuts := newCuts()
			for _, call := range callsIn(a.ssk, fin.Object()) {
				cuts.AddInstrs(call)
			}
			c.mustPassInstr(rule, fnName(a.ssk)+"#encrypted=true<-"+fin.Name(), a.ssk, st, cuts, "a call of "+fin.Name())
		}
	}
	c.MinCount(rule, "encrypted=true stores in SetSymmetricKey", n, 1)
	// writers
	poss := map[*ssa.Function]token.Pos{}
	writers := func(f *types.Var) []*ssa.Function {
		var wr []*ssa.Function
		for _, acc := range c.fieldAccesses(f) {
			if acc.Write {
				wr = append(wr, acc.Fn)
				poss[acc.Fn] = acc.Instr.Pos()
			}
		}
		return wr
	}
	c.whoMay(rule, "write Stream.finalSendDigest", writers(a.finalSend), poss, fnSet(a.finS, a.imp))
	c.whoMay(rule, "write Stream.finalRecvDigest", writers(a.finalRecv), poss, fnSet(a.finR, a.imp))
	c.whoMay(rule, "write Stream.sendDigestWritten", writers(a.sendWritten), poss, fnSet(a.send, a.imp))
	c.whoMay(rule, "write Stream.recvDigestWritten", writers(a.recvWritten), poss, fnSet(a.rf, a.rfe, a.imp))
	// finalizers
	for _, d := range []struct {
		fin                    *ssa.Function
		digest, final, written *types.Var
	}{{a.finS, a.sendDigest, a.finalSend, a.sendWritten}, {a.finR, a.recvDigest, a.finalRecv, a.recvWritten}} {
		fn := d.fin
		off, on := fieldCondEdges(fn, d.written)
		nilE, _ := fieldCondEdges(fn, d.digest)
		k := 0
		allInstrs(fn, func(_ *ssa.BasicBlock, _ int, in ssa.Instruction) {
			st, ok := in.(*ssa.Store)
			if !ok {
				return
			}
			fa, ok := st.Addr.(*ssa.FieldAddr)
			if !ok || fieldOfAddr(fa) != d.final {
				return
			}
			k++
			// what is stored: Sum of the running digest, or a fresh zero block
			isSum, isZero := false, false
			for _, o := range origins(fn, st.Val) {
				if call, _ := originCall(o); call != nil {
					cc := call.Common()
					if cc.IsInvoke() && cc.Method.Name() == "Sum" && readsField(cc.Value, d.digest) {
						isSum = true
						continue
					}
				}
				if al, ok := o.(*ssa.Alloc); ok {
					if arr, ok := al.Type().Underlying().(*types.Pointer).Elem().Underlying().(*types.Array); ok && arr.Len() == 32 && c04NeverWritten(al) {
						isZero = true
						continue
					}
				}
				if ms, ok := o.(*ssa.MakeSlice); ok {
					if ln, isC := constInt(ms.Len); isC && ln == 32 && c04NeverWritten(ms) {
						isZero = true
						continue
					}
				}
				isSum, isZero = false, false
				break
			}
			switch {
			case isSum && !isZero:
				c.mustPassInstr(rule, fnName(fn)+"#store-Sum", fn, st, newCuts().AddEdges(on...), "the edge on which "+d.written.Name()+" is true")
			case isZero && !isSum:
				// the digest==nil edge leads here too; it is dead under the constructor invariant (decided in R2)
				c.mustPassInstr(rule, fnName(fn)+"#store-zero-block", fn, st, newCuts().AddEdges(off...).AddEdges(nilE...), "the edge on which "+d.written.Name()+" is false")
			default:
				c.Undecided(rule, fnName(fn)+"#store", "the value frozen into "+d.final.Name()+" is neither digest.Sum(nil) nor a fresh 32-byte zero block", st.Pos())
			}
		})
		c.MinCount(rule, "stores to "+d.final.Name()+" in "+fn.Name(), k, 2)
	}
}

// c04NeverWritten: no element store, copy-into or call argument use of the fresh buffer (it stays all-zero).
func c04NeverWritten(buf ssa.Value) bool {
	w, _ := addrUses(buf)
	if w {
		// addrUses counts "stored somewhere" (escape) as a write; a plain store of the slice into a field is not
		for _, r := range *buf.Referrers() {
			switch u := r.(type) {
			case *ssa.Slice:
				for _, r2 := range *u.Referrers() {
					if st, ok := r2.(*ssa.Store); ok && st.Val == ssa.Value(u) {
						continue
					}
					if _, ok := r2.(*ssa.DebugRef); ok {
						continue
					}
					return false
				}
			case *ssa.Store:
				if u.Val != buf {
					return false
				}
			case *ssa.DebugRef:
			default:
				return false
			}
		}
	}
	return true
}

// C04-R4: AAD layout mirrored.
func c04r4(c *Ctx) {
	const rule = "C04-R4"
	c.Doc(rule, "first-frame associated data: encryptDataWithAAD builds [0:32]<-finalSendDigest, [32:64]<-finalRecvDigest, [64:]<-header; decryptDataWithAAD the mirror image [0:32]<-finalRecvDigest, [32:64]<-finalSendDigest, [64:]<-header (oracle: the property's 'send||recv, mirrored on receive'); the first-frame branch is taken on the edge where finished{Send,Recv}AAD is false, sets it true before the AEAD call, calls both finalizers, and the flag is written nowhere else but SetSymmetricKey and the importer")
	a := c04Anchors(c, rule)
	seal, open := c.aeadMethod04(rule, "Seal"), c.aeadMethod04(rule, "Open")
	if !a.ok || seal == nil || open == nil {
		return
	}
	n := 0
	for _, d := range []struct {
		fn          *ssa.Function
		aead        *types.Func
		flag        *types.Var
		first, next string
	}{{a.enc, seal, a.finishedSend, "finalSendDigest", "finalRecvDigest"}, {a.dec, open, a.finishedRecv, "finalRecvDigest", "finalSendDigest"}} {
		fn := d.fn
		hdrPar := c01Param(fn, "frameHeader", 2)
		if hdrPar == nil {
			c.Undecided(rule, fnName(fn)+"#header-param", "no frame header parameter", fn.Pos())
			continue
		}
		hdr := "param:" + hdrPar.Name()
		for _, call := range callsIn(fn, d.aead) {
			n++
			lay, ok := c04AADLayout(fn, call, d.flag)
			if !ok {
				c.Undecided(rule, fnName(fn)+"#aad", "the associated data of "+d.aead.Name()+" is not a locally made buffer filled by copy() at constant offsets", call.Pos())
				continue
			}
			firsts := 0
			for _, br := range lay {
				if !br.First {
					continue
				}
				firsts++
				want := []c04AADPart{{Lo: 0, Hi: 32, Src: "field:" + d.first}, {Lo: 32, Hi: 64, Src: "field:" + d.next}, {Lo: 64, Hi: -1, Src: hdr}}
				c.Check(c04LayoutIs(br, want) && br.LenConst == 64 && br.LenOfHdr, rule, fnName(fn)+"#first-frame-aad",
					"first-frame AAD is "+br.String(),
					fmt.Sprintf("first-frame AAD is {%s} (length %d+len(header)=%v); the format requires [0:32]<-%s, [32:64]<-%s, [64:]<-header: the peer's mirrored AAD will not match", br.String(), br.LenConst, br.LenOfHdr, d.first, d.next), call.Pos())
				// within the first-frame branch: flag set, both finalizers called, before the AEAD call
				off, _ := fieldCondEdges(fn, d.flag)
				// the first-frame flag: set on every path from the first-frame edge to a success return (so the
				// next frame uses the header-only AAD). Whether it is set before or after the AEAD call is not
				// demanded: setting it only once the frame has authenticated is at least as good.
				{
					okFlag := len(off) > 0
					stores := c04TrueStores(fn, d.flag)
					for _, e := range off {
						for _, t := range c.successTargets(fn) {
							if ev := t.Ret.Results[len(t.Ret.Results)-1]; !isNilConst(ev) {
								continue
							}
							if findPath(Point{e.To(), 0}, t.Target(), newCuts().AddInstrs(stores...)) != nil {
								okFlag = false
							}
						}
					}
					c.Check(okFlag && len(stores) > 0, rule, fnName(fn)+"#first-frame=>"+d.flag.Name()+"=true", "every success path through the first-frame branch sets "+d.flag.Name(), "a frame can be processed on the first-frame edge and success returned without setting "+d.flag.Name()+": the digests would be bound into a second frame's associated data too and the peer's header-only AAD would not match", call.Pos())
				}
				for _, need := range []struct {
					what string
					ins  []ssa.Instruction
				}{
					{"finalizeSendDigest()", c04Calls(fn, a.finS)},
					{"finalizeRecvDigest()", c04Calls(fn, a.finR)},
				} {
					okAll := len(off) > 0 && len(need.ins) > 0
					for _, e := range off {
						if findPath(Point{e.To(), 0}, Target{Instr: call}, newCuts().AddInstrs(need.ins...)) != nil {
							okAll = false
						}
					}
					c.Check(okAll, rule, fnName(fn)+"#first-frame=>"+need.what, "done on the first-frame edge before "+d.aead.Name(), "on the first-frame edge "+d.aead.Name()+" can be reached without "+need.what, call.Pos())
				}
			}
			c.Check(firsts == 1, rule, fnName(fn)+"#first-frame-branch", "exactly one AAD buffer is built on the first-frame edge", fmt.Sprintf("%d AAD buffers are built on the edge where %s is false (expected 1)", firsts, d.flag.Name()), call.Pos())
		}
		// inside the encrypt/decrypt function the flag only ever goes to true (it is cleared by key install / import only)
		for _, st := range storesToField(fn, d.flag) {
			b, isB := constBool(st.Val)
			c.Check(isB && b, rule, fnName(fn)+"#"+d.flag.Name()+"-store", "the flag is only ever set to true here", "the first-frame flag is cleared or set to a computed value: a later frame could take the first-frame branch again", st.Pos())
		}
		var wr []*ssa.Function
		poss := map[*ssa.Function]token.Pos{}
		for _, acc := range c.fieldAccesses(d.flag) {
			if acc.Write {
				wr = append(wr, acc.Fn)
				poss[acc.Fn] = acc.Instr.Pos()
			}
		}
		c.whoMay(rule, "write Stream."+d.flag.Name(), wr, poss, fnSet(fn, a.ssk, a.imp))
	}
	c.MinCount(rule, "AEAD calls", n, 2)
}

func c04Calls(fn, callee *ssa.Function) []ssa.Instruction {
	var out []ssa.Instruction
	for _, call := range callsIn(fn, callee.Object()) {
		out = append(out, call)
	}
	return out
}

// aeadMethod04 resolves crypto/cipher.AEAD.<name> (own copy so that C04/C12 build without rules_c02.go).
func (c *Ctx) aeadMethod04(rule, name string) *types.Func {
	tp := c.PkgTypes("crypto/cipher")
	if tp == nil {
		c.AnchorMissing(rule, "crypto/cipher")
		return nil
	}
	obj, _, _ := types.LookupFieldOrMethod(tp.Scope().Lookup("AEAD").Type(), false, tp, name)
	f, _ := obj.(*types.Func)
	if f == nil {
		c.AnchorMissing(rule, "crypto/cipher.AEAD."+name)
	}
	return f
}

// C04-R5: the first protected message follows key installation.
func c04r5(c *Ctx) {
	const rule = "C04-R5"
	c.Doc(rule, "first protected message: in performFullAuthentication (client) and ServerHandshakeWithMessage (server) every success return passes a nil-error setupStreamEncryption call and, after it, a nil-error read (client: GetClassAdWithMaxSize) resp. flush (server: FinishMessage) of the post-authentication message; the server's resumption branch delegates to handleSessionResumption (first protected message = first command)")
	setup := c.needFn(rule, "security", "(*Authenticator).setupStreamEncryption")
	cli := c.needFn(rule, "security", "(*Authenticator).performFullAuthentication")
	srv := c.needFn(rule, "security", "(*Authenticator).ServerHandshakeWithMessage")
	resume := c.needFn(rule, "security", "(*Authenticator).handleSessionResumption")
	get := c.needFn(rule, "message", "(*Message).GetClassAdWithMaxSize")
	fin := c.needFn(rule, "message", "(*Message).FinishMessage")
	if setup == nil || cli == nil || srv == nil || resume == nil || get == nil || fin == nil {
		return
	}
	n := 0
	for _, d := range []struct {
		fn, io *ssa.Function
		what   string
	}{{cli, get, "a successful read of the post-authentication ad"}, {srv, fin, "a successful flush of the post-authentication ad"}} {
		fn := d.fn
		var tg []RetPoint
		for _, t := range c.successTargets(fn) {
			// exception (one symbol): "return a.handleSessionResumption(...)" - a resumed session has no
			// post-auth ad; its first protected message is the first command (C06 decides that path)
			if call, _ := originCall(t.Ret.Results[len(t.Ret.Results)-1]); call != nil && calleeFn(call) == resume {
				continue
			}
			tg = append(tg, t)
		}
		n += len(tg)
		setupOK := newCuts()
		var after []Edge
		for _, call := range callsIn(fn, setup.Object()) {
			succ, _, checked := callErrEdges(fn, call.Value())
			if !checked {
				c.Violate(rule, fnName(fn)+"#setupStreamEncryption-error", "the error of setupStreamEncryption is not tested", call.Pos())
			}
			setupOK.AddEdges(succ...)
			after = append(after, succ...)
		}
		c.mustPassReturns(rule, fn, tg, setupOK, "a nil-error setupStreamEncryption call")
		ioOK := newCuts()
		for _, call := range callsIn(fn, d.io.Object()) {
			succ, _, _ := callErrEdges(fn, call.Value())
			ioOK.AddEdges(succ...)
		}
		okAll := len(after) > 0
		var wit []*ssa.BasicBlock
		for _, e := range after {
			for _, t := range tg {
				if p := findPath(Point{e.To(), 0}, t.Target(), ioOK); p != nil {
					okAll = false
					wit = p
				}
			}
		}
		c.Check(okAll, rule, fnName(fn)+"#post-auth-after-key", "after the key is installed every success path passes "+d.what,
			"after setupStreamEncryption a success return is reachable without "+d.what+": the handshake would end without a protected message that authenticates the transcript", fn.Pos(), c.describePath(wit)...)
	}
	c.MinCount(rule, "success returns of the two full-handshake functions", n, 2)
}
