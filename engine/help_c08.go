package main

// Wire-item abstraction used by the sibling-agreement rules of C08 (and C09-R7).
//
// A function is abstracted to a regular language over "wire items": the module's serialisation
// primitives it calls (INT, STR, ...), the crypto-for-secret bracket calls (PREP/REST) and the
// outcomes of a few recognised tests (is the string just read the secret marker? is the stream
// encrypting? was the byte just read the NUL terminator?). The language is the set of item
// sequences along CFG paths from the entry to a return that may be a success return; paths into
// error returns contribute nothing. Module callees that touch the message are inlined, loops become
// cycles of the automaton, and items that occur inside a loop carry the suffix ".l" so that
// "n strings in the loop, then two" differs from "n+2 strings".
//
// Two languages are compared exactly (subset construction on the fly); a shortest word accepted by
// exactly one side is reported. Anything the abstraction cannot follow becomes an item with a "?"
// in its name, which no expected language contains, so it surfaces as a mismatch (fail closed).

import (
	"fmt"
	"go/constant"
	"go/token"
	"go/types"
	"os"
	"sort"
	"strings"
	"time"

	"golang.org/x/tools/go/ssa"
)

// ---------------------------------------------------------------------------
// a tiny NFA with epsilon moves

type wnfa struct {
	eps   [][]int
	tr    []map[string][]int
	acc   map[int]bool
	start int
}

func newWNFA() *wnfa { return &wnfa{acc: map[int]bool{}} }

func (a *wnfa) state() int {
	a.eps = append(a.eps, nil)
	a.tr = append(a.tr, nil)
	return len(a.eps) - 1
}

// arc adds s --label--> t (epsilon when label is empty).
func (a *wnfa) arc(s int, label string, t int) {
	if label == "" {
		a.eps[s] = append(a.eps[s], t)
		return
	}
	if a.tr[s] == nil {
		a.tr[s] = map[string][]int{}
	}
	a.tr[s][label] = append(a.tr[s][label], t)
}

func (a *wnfa) closure(set map[int]bool) map[int]bool {
	var stack []int
	for s := range set {
		stack = append(stack, s)
	}
	for len(stack) > 0 {
		s := stack[len(stack)-1]
		stack = stack[:len(stack)-1]
		for _, t := range a.eps[s] {
			if !set[t] {
				set[t] = true
				stack = append(stack, t)
			}
		}
	}
	return set
}

func (a *wnfa) step(set map[int]bool, label string) map[int]bool {
	out := map[int]bool{}
	for s := range set {
		for _, t := range a.tr[s][label] {
			out[t] = true
		}
	}
	return a.closure(out)
}

func (a *wnfa) accepts(set map[int]bool) bool {
	for s := range set {
		if a.acc[s] {
			return true
		}
	}
	return false
}

func (a *wnfa) labels(set map[int]bool, into map[string]bool) {
	for s := range set {
		for l := range a.tr[s] {
			into[l] = true
		}
	}
}

func c08SetKey(set map[int]bool) string {
	ids := make([]int, 0, len(set))
	for s := range set {
		ids = append(ids, s)
	}
	sort.Ints(ids)
	var b strings.Builder
	for _, i := range ids {
		fmt.Fprintf(&b, "%d,", i)
	}
	return b.String()
}

// wnfaDiff returns a shortest word accepted by exactly one of a, b (differ=false when the languages
// are equal). inA tells which side accepts it. Words that can still be extended to an accepted word
// on one side only are found too, because the search runs to acceptance.
func wnfaDiff(a, b *wnfa) (word []string, inA, differ bool) {
	type pair struct {
		sa, sb map[int]bool
		word   []string
	}
	sa := a.closure(map[int]bool{a.start: true})
	sb := b.closure(map[int]bool{b.start: true})
	seen := map[string]bool{c08SetKey(sa) + "|" + c08SetKey(sb): true}
	queue := []pair{{sa, sb, nil}}
	for len(queue) > 0 {
		p := queue[0]
		queue = queue[1:]
		aa, ab := a.accepts(p.sa), b.accepts(p.sb)
		if aa != ab {
			return p.word, aa, true
		}
		ls := map[string]bool{}
		a.labels(p.sa, ls)
		b.labels(p.sb, ls)
		var sorted []string
		for l := range ls {
			sorted = append(sorted, l)
		}
		sort.Strings(sorted)
		for _, l := range sorted {
			na, nb := a.step(p.sa, l), b.step(p.sb, l)
			if len(na) == 0 && len(nb) == 0 {
				continue
			}
			k := c08SetKey(na) + "|" + c08SetKey(nb)
			if seen[k] {
				continue
			}
			seen[k] = true
			w := append(append([]string{}, p.word...), l)
			queue = append(queue, pair{na, nb, w})
		}
	}
	return nil, false, false
}

// wnfaEmpty reports whether the automaton accepts nothing.
func wnfaEmpty(a *wnfa) bool {
	set := map[int]bool{a.start: true}
	stack := []int{a.start}
	for len(stack) > 0 {
		s := stack[len(stack)-1]
		stack = stack[:len(stack)-1]
		if a.acc[s] {
			return false
		}
		next := append([]int{}, a.eps[s]...)
		for _, ts := range a.tr[s] {
			next = append(next, ts...)
		}
		for _, t := range next {
			if !set[t] {
				set[t] = true
				stack = append(stack, t)
			}
		}
	}
	return true
}

// erase returns a copy of a in which the given labels are epsilon moves (projection).
func (a *wnfa) erase(drop func(string) bool) *wnfa {
	b := newWNFA()
	for range a.eps {
		b.state()
	}
	b.start = a.start
	for s := range a.eps {
		b.eps[s] = append(b.eps[s], a.eps[s]...)
		for l, ts := range a.tr[s] {
			for _, t := range ts {
				if drop(l) {
					b.arc(s, "", t)
				} else {
					b.arc(s, l, t)
				}
			}
		}
	}
	for s := range a.acc {
		b.acc[s] = true
	}
	return b
}

// without returns a copy of a with the arcs carrying the given labels removed (the paths through them are gone).
func (a *wnfa) without(drop func(string) bool) *wnfa {
	b := newWNFA()
	for range a.eps {
		b.state()
	}
	b.start = a.start
	for s := range a.eps {
		b.eps[s] = append(b.eps[s], a.eps[s]...)
		for l, ts := range a.tr[s] {
			if drop(l) {
				continue
			}
			for _, t := range ts {
				b.arc(s, l, t)
			}
		}
	}
	for s := range a.acc {
		b.acc[s] = true
	}
	return b
}

// wnfaUnion accepts what a or b accepts.
func wnfaUnion(a, b *wnfa) *wnfa {
	u := newWNFA()
	start := u.state()
	u.start = start
	add := func(x *wnfa) {
		off := len(u.eps)
		for range x.eps {
			u.state()
		}
		for s := range x.eps {
			for _, t := range x.eps[s] {
				u.arc(s+off, "", t+off)
			}
			for l, ts := range x.tr[s] {
				for _, t := range ts {
					u.arc(s+off, l, t+off)
				}
			}
		}
		for s := range x.acc {
			u.acc[s+off] = true
		}
		u.arc(start, "", x.start+off)
	}
	add(a)
	add(b)
	return u
}

// c08ConsistentToggle: whether the stream implements the crypto-for-secret toggle does not change while one ad
// is read or written, so a path on which one test of it says yes (T+) and another says no (T-) does not exist.
// The language is restricted to the paths whose toggle tests agree, and the test outcomes are then erased.
func c08ConsistentToggle(a *wnfa) *wnfa {
	is := func(l, want string) bool { return strings.TrimSuffix(l, wireLoop) == want }
	yes := a.without(func(l string) bool { return is(l, "T-") })
	no := a.without(func(l string) bool { return is(l, "T+") })
	return wnfaUnion(yes, no).erase(func(l string) bool { return is(l, "T+") || is(l, "T-") })
}

// ---------------------------------------------------------------------------
// regular expressions for the expected languages

type wre func(a *wnfa) (s, e int)

func wLit(l string) wre {
	return func(a *wnfa) (int, int) {
		s, e := a.state(), a.state()
		a.arc(s, l, e)
		return s, e
	}
}

func wSeq(rs ...wre) wre {
	return func(a *wnfa) (int, int) {
		s := a.state()
		cur := s
		for _, r := range rs {
			rs, re := r(a)
			a.arc(cur, "", rs)
			cur = re
		}
		return s, cur
	}
}

func wAlt(rs ...wre) wre {
	return func(a *wnfa) (int, int) {
		s, e := a.state(), a.state()
		for _, r := range rs {
			rs, re := r(a)
			a.arc(s, "", rs)
			a.arc(re, "", e)
		}
		return s, e
	}
}

func wStar(r wre) wre {
	return func(a *wnfa) (int, int) {
		s := a.state()
		rs, re := r(a)
		a.arc(s, "", rs)
		a.arc(re, "", s)
		return s, s
	}
}

func wOpt(r wre) wre { return wAlt(r, wSeq()) }

func wCompile(r wre) *wnfa {
	a := newWNFA()
	s, e := r(a)
	a.start = s
	a.acc[e] = true
	return a
}

// ---------------------------------------------------------------------------
// function -> automaton

// wireAct is what the labeler decides for one call instruction.
type wireAct struct {
	Label  string        // wire item (without loop suffix); "" = not an item
	Inline *ssa.Function // module callee to splice in
}

// wireAbs builds automata from SSA functions with a rule-specific labeler.
type wireAbs struct {
	c *Ctx
	// act classifies a call (Call, Defer or Go instruction).
	act func(fn *ssa.Function, call ssa.CallInstruction) wireAct
	// edge labels the true/false successor edges of a block ending in If ("" = no label).
	edge func(fn *ssa.Function, b *ssa.BasicBlock) (t, f string)
	// other classifies a non-call instruction that may matter (e.g. a raw buffer access): a label or "".
	other func(fn *ssa.Function, in ssa.Instruction) string
	// actFr, when set, replaces act: it sees the calling context (see edgeFr).
	actFr func(fr *cxFrame, call ssa.CallInstruction) wireAct
	// edgeFr, when set, replaces edge: it sees the calling context of the function being spliced in, so that a
	// test on a helper's parameter can be traced to the caller's argument.
	edgeFr func(fr *cxFrame, b *ssa.BasicBlock) (t, f string)
	fr     *cxFrame // calling context of the function currently being spliced in

	a      *wnfa
	active map[*ssa.Function]bool
	depth  int
}

const wireLoop = ".l"

// build returns the automaton of fn (nil and a reason when fn has no body).
func (w *wireAbs) build(fn *ssa.Function) *wnfa {
	w.a = newWNFA()
	w.active = map[*ssa.Function]bool{}
	w.fr = cxTop(fn)
	entry, exits := w.addFn(fn, false)
	w.a.start = entry
	for _, x := range exits {
		w.a.acc[x] = true
	}
	return w.a
}

// c08CyclicBlocks: the blocks of fn that lie on a CFG cycle.
func c08CyclicBlocks(fn *ssa.Function) map[*ssa.BasicBlock]bool {
	out := map[*ssa.BasicBlock]bool{}
	for _, b := range fn.Blocks {
		seen := map[*ssa.BasicBlock]bool{}
		stack := append([]*ssa.BasicBlock{}, b.Succs...)
		for len(stack) > 0 {
			x := stack[len(stack)-1]
			stack = stack[:len(stack)-1]
			if x == b {
				out[b] = true
				break
			}
			if seen[x] {
				continue
			}
			seen[x] = true
			stack = append(stack, x.Succs...)
		}
	}
	return out
}

// c08RetClass is RetPoint.Class refined for functions that contain a defer: go/ssa then keeps the results in
// local cells ("*t0 = err; rundefers; return *t0"), and the shared classification sees only a load of a cell
// with several stores ("maybe"). The value stored into the cell last in the return's own block decides.
func c08RetClass(c *Ctx, fn *ssa.Function, r RetPoint) string {
	if r.Class != "maybe" || r.Pred != nil {
		return r.Class
	}
	ei := -1
	for i := 0; i < fn.Signature.Results().Len(); i++ {
		if isErrorType(fn.Signature.Results().At(i).Type()) {
			ei = i
		}
	}
	if ei < 0 || ei >= len(r.Ret.Results) {
		return r.Class
	}
	ld, ok := r.Ret.Results[ei].(*ssa.UnOp)
	if !ok || ld.Op != token.MUL {
		return r.Class
	}
	al, ok := ld.X.(*ssa.Alloc)
	if !ok {
		return r.Class
	}
	b := r.Ret.Block()
	var last *ssa.Store
	for _, in := range b.Instrs {
		if in == ssa.Instruction(ld) {
			break
		}
		if st, ok := in.(*ssa.Store); ok && st.Addr == ssa.Value(al) {
			last = st
		}
	}
	if last == nil {
		return r.Class
	}
	return c.classifyErr(fn, last.Val, b, 0)
}

// addFn splices fn into the automaton; inLoop says whether the call site lies in a loop.
// It returns the entry state and the states at fn's (possibly) successful returns.
func (w *wireAbs) addFn(fn *ssa.Function, inLoop bool) (entry int, exits []int) {
	a := w.a
	entry = a.state()
	if fn == nil || fn.Blocks == nil || w.active[fn] || w.depth > 6 {
		// recursion or missing body: an item no expected language contains
		x := a.state()
		a.arc(entry, "UNFOLLOWED?"+fnName(fn), x)
		return entry, []int{x}
	}
	w.active[fn] = true
	w.depth++
	defer func() { delete(w.active, fn); w.depth-- }()

	cyc := c08CyclicBlocks(fn)
	// error returns, per (return block, predecessor)
	type rk struct{ b, pred *ssa.BasicBlock }
	errRet := map[rk]bool{}
	for _, r := range w.c.returnsOf(fn) {
		if c08RetClass(w.c, fn, r) == "error" {
			errRet[rk{r.Ret.Block(), r.Pred}] = true
		}
	}
	// deferred item calls get one bit each, in registration (block) order
	var defers []*ssa.Defer
	deferLabel := map[*ssa.Defer]string{}
	deferInline := map[*ssa.Defer]*ssa.Function{}
	allInstrs(fn, func(_ *ssa.BasicBlock, _ int, in ssa.Instruction) {
		if d, ok := in.(*ssa.Defer); ok {
			act := w.actOf(fn, d)
			switch {
			case act.Label != "":
				defers = append(defers, d)
				deferLabel[d] = act.Label
			case act.Inline != nil:
				defers = append(defers, d)
				deferLabel[d] = "DEFERRED?" + fnName(act.Inline)
				deferInline[d] = act.Inline // spliced in where the deferred calls run
			}
		}
	})
	if len(defers) > 8 {
		x := a.state()
		a.arc(entry, "DEFERS?", x)
		return entry, []int{x}
	}
	bit := func(d *ssa.Defer) uint {
		for i, x := range defers {
			if x == d {
				return uint(i)
			}
		}
		return 0
	}
	type sk struct {
		b    *ssa.BasicBlock
		mask uint
	}
	states := map[sk]int{}
	var work []sk
	get := func(k sk) int {
		if s, ok := states[k]; ok {
			return s
		}
		s := a.state()
		states[k] = s
		work = append(work, k)
		return s
	}
	a.arc(entry, "", get(sk{fn.Blocks[0], 0}))
	for len(work) > 0 {
		k := work[len(work)-1]
		work = work[:len(work)-1]
		cur := states[k]
		mask := k.mask
		loop := inLoop || cyc[k.b]
		sfx := ""
		if loop {
			sfx = wireLoop
		}
		emit := func(l string) {
			n := a.state()
			a.arc(cur, l+sfx, n)
			cur = n
		}
		dead := false
		for _, in := range k.b.Instrs {
			switch x := in.(type) {
			case *ssa.Defer:
				if _, ok := deferLabel[x]; ok {
					mask |= 1 << bit(x)
				}
			case *ssa.RunDefers:
				for i := len(defers) - 1; i >= 0; i-- {
					if mask&(1<<uint(i)) == 0 {
						continue
					}
					if g := deferInline[defers[i]]; g != nil {
						// a deferred same-module helper runs here: splice it in
						saved := w.fr
						w.fr = &cxFrame{fn: g, call: defers[i], up: saved}
						e, xs := w.addFn(g, loop)
						w.fr = saved
						a.arc(cur, "", e)
						n := a.state()
						for _, s := range xs {
							a.arc(s, "", n)
						}
						cur = n
						continue
					}
					emit(deferLabel[defers[i]])
				}
			case *ssa.Go:
				if act := w.actOf(fn, x); act.Label != "" || act.Inline != nil {
					emit("GO?")
				}
			case *ssa.Call:
				act := w.actOf(fn, x)
				if act.Label == "" && act.Inline == nil && calleeFn(x) == nil && !x.Call.IsInvoke() && w.fr != nil && w.fr.fn == fn {
					// a function value handed in by the caller ("with...(func() { ... })"): the closure the
					// caller built is what runs here
					if g := c08FuncValue(w.fr.resolve(x.Call.Value).v); g != nil && g.Blocks != nil && fnPkg(g) != nil && inModule(fnPkg(g).Path()) {
						act = wireAct{Inline: g}
					}
				}
				if act.Label != "" {
					emit(act.Label)
				} else if act.Inline != nil {
					saved := w.fr
					w.fr = &cxFrame{fn: act.Inline, call: x, up: saved}
					e, xs := w.addFn(act.Inline, loop)
					w.fr = saved
					a.arc(cur, "", e)
					n := a.state()
					for _, s := range xs {
						a.arc(s, "", n)
					}
					cur = n
				}
			case *ssa.Return:
				if !errRet[rk{k.b, nil}] {
					exits = append(exits, cur)
				}
				dead = true
			case *ssa.Panic:
				dead = true
			default:
				if w.other != nil {
					if l := w.other(fn, in); l != "" {
						emit(l)
					}
				}
			}
			if dead {
				break
			}
		}
		if dead {
			continue
		}
		tl, fl := "", ""
		if blockIf(k.b) != nil {
			if w.edgeFr != nil && w.fr != nil && w.fr.fn == fn {
				tl, fl = w.edgeFr(w.fr, k.b)
			} else if w.edge != nil {
				tl, fl = w.edge(fn, k.b)
			}
		}
		for i, s := range k.b.Succs {
			if errRet[rk{s, k.b}] {
				continue // this edge leads into an error return (phi-split return)
			}
			l := ""
			if i == 0 && tl != "" {
				l = tl + sfx
			}
			if i == 1 && fl != "" {
				l = fl + sfx
			}
			a.arc(cur, l, get(sk{s, mask}))
		}
	}
	return entry, exits
}

// c08FuncValue: the function a function-typed value denotes when it is a closure or a plain function.
func c08FuncValue(v ssa.Value) *ssa.Function {
	switch x := v.(type) {
	case *ssa.MakeClosure:
		g, _ := x.Fn.(*ssa.Function)
		return g
	case *ssa.Function:
		return x
	}
	return nil
}

// actOf classifies a call of the function being spliced in, with its calling context when the labeler wants it.
func (w *wireAbs) actOf(fn *ssa.Function, call ssa.CallInstruction) wireAct {
	if w.actFr != nil && w.fr != nil && w.fr.fn == fn {
		return w.actFr(w.fr, call)
	}
	return w.act(fn, call)
}

// ---------------------------------------------------------------------------
// anchors shared by the C08/C09 wire rules

type wireAnchors struct {
	c           *Ctx
	rule        string
	ok          bool
	bufF, strF  *types.Var             // Message.buffer, Message.stream
	marker      string                 // value of SecretMarker
	intReaders  map[*ssa.Function]bool // GetInt, GetInt32, GetInt64, GetUint32
	strReaders  map[*ssa.Function]bool // GetString, GetStringWithMaxSize, SkipString (+ verified siblings)
	intWriters  map[*ssa.Function]bool // PutInt, PutInt32, PutInt64, PutUint32
	strWriters  map[*ssa.Function]bool // PutString, PutStringBytes
	flush       *ssa.Function          // FlushFrame
	rawMsg      map[*ssa.Function]bool // byte-level Message methods that are not items at this level
	getString   *ssa.Function          // reference string reader
	nbytes      map[*ssa.Function]bool // discard, GetBytes
	ensure      *ssa.Function          // ensureData
	touchMemo   map[*ssa.Function]int  // 1 in progress, 2 touches, 3 does not
	secretIface *types.Interface       // message.secretCrypto
	streamIface *types.Interface       // message.StreamInterface
	matchers    map[*ssa.Function]bool // verified string readers that report a match against an argument
	streamPrep  map[*types.Func]bool   // resolved method objects for PREP
	streamRest  map[*types.Func]bool   // resolved method objects for REST
	streamNoop  map[*types.Func]bool   // CryptoForSecretIsNoop
	streamIsEnc map[*types.Func]bool   // IsEncrypted
	streamRW    map[*types.Func]bool   // ReadFrame / WriteFrame
}

func (c *Ctx) wireAnchors(rule string) *wireAnchors {
	w := &wireAnchors{c: c, rule: rule, ok: true, touchMemo: map[*ssa.Function]int{},
		intReaders: map[*ssa.Function]bool{}, strReaders: map[*ssa.Function]bool{}, intWriters: map[*ssa.Function]bool{},
		strWriters: map[*ssa.Function]bool{}, rawMsg: map[*ssa.Function]bool{}, nbytes: map[*ssa.Function]bool{},
		matchers:   map[*ssa.Function]bool{},
		streamPrep: map[*types.Func]bool{}, streamRest: map[*types.Func]bool{}, streamNoop: map[*types.Func]bool{},
		streamIsEnc: map[*types.Func]bool{}, streamRW: map[*types.Func]bool{}}
	need := func(name string) *ssa.Function {
		f := c.needFn(rule, "message", "(*Message)."+name)
		if f == nil {
			w.ok = false
		}
		return f
	}
	for _, n := range []string{"GetInt", "GetInt32", "GetInt64", "GetUint32"} {
		w.intReaders[need(n)] = true
	}
	for _, n := range []string{"GetString", "GetStringWithMaxSize", "SkipString"} {
		w.strReaders[need(n)] = true
	}
	for _, n := range []string{"PutInt", "PutInt32", "PutInt64", "PutUint32"} {
		w.intWriters[need(n)] = true
	}
	for _, n := range []string{"PutString", "PutStringBytes"} {
		w.strWriters[need(n)] = true
	}
	for _, n := range []string{"GetChar", "GetFloat", "GetDouble", "GetRemainingBytes", "PutChar", "PutBytes", "PutFloat", "PutDouble"} {
		w.rawMsg[need(n)] = true
	}
	for _, n := range []string{"discard", "GetBytes"} {
		w.nbytes[need(n)] = true
	}
	w.flush = need("FlushFrame")
	w.ensure = need("ensureData")
	w.getString = need("GetString")
	w.bufF = c.needField(rule, "message", "Message", "buffer")
	w.strF = c.needField(rule, "message", "Message", "stream")
	if w.bufF == nil || w.strF == nil {
		w.ok = false
	}
	if k, _ := c.needObj(rule, "message", "SecretMarker").(*types.Const); k != nil {
		if s, ok := c08ConstValString(k); ok && s != "" {
			w.marker = s
		}
	}
	if w.marker == "" {
		w.ok = false
	}
	iface := func(name string) *types.Interface {
		o := c.needObj(rule, "message", name)
		if o == nil {
			w.ok = false
			return nil
		}
		it, _ := o.Type().Underlying().(*types.Interface)
		if it == nil {
			c.AnchorMissing(rule, "message."+name+" (interface)")
			w.ok = false
		}
		return it
	}
	w.secretIface = iface("secretCrypto")
	w.streamIface = iface("StreamInterface")
	method := func(it *types.Interface, name string, into map[*types.Func]bool) {
		if it == nil {
			return
		}
		for i := 0; i < it.NumMethods(); i++ {
			if it.Method(i).Name() == name {
				into[it.Method(i)] = true
				return
			}
		}
		c.AnchorMissing(rule, "interface method "+name)
		w.ok = false
	}
	method(w.secretIface, "PrepareCryptoForSecret", w.streamPrep)
	method(w.secretIface, "RestoreCryptoAfterSecret", w.streamRest)
	method(w.secretIface, "CryptoForSecretIsNoop", w.streamNoop)
	method(w.streamIface, "IsEncrypted", w.streamIsEnc)
	method(w.streamIface, "ReadFrame", w.streamRW)
	method(w.streamIface, "WriteFrame", w.streamRW)
	// the concrete stream methods (a static call on *stream.Stream counts the same)
	for name, into := range map[string]map[*types.Func]bool{"PrepareCryptoForSecret": w.streamPrep, "RestoreCryptoAfterSecret": w.streamRest,
		"CryptoForSecretIsNoop": w.streamNoop, "IsEncrypted": w.streamIsEnc, "ReadFrame": w.streamRW, "WriteFrame": w.streamRW} {
		if o, _ := c.needObj(rule, "stream", "(*Stream)."+name).(*types.Func); o != nil {
			into[o] = true
		} else {
			w.ok = false
		}
	}
	delete(w.intReaders, nil)
	delete(w.strReaders, nil)
	delete(w.intWriters, nil)
	delete(w.strWriters, nil)
	delete(w.rawMsg, nil)
	delete(w.nbytes, nil)
	return w
}

func c08ConstValString(k *types.Const) (string, bool) {
	v := k.Val()
	if v == nil || v.Kind() != constant.String {
		return "", false
	}
	return constant.StringVal(v), true
}

// accessesMsgField: instruction is the address of Message.buffer or Message.stream.
func (w *wireAnchors) msgField(in ssa.Instruction) *types.Var {
	if fa, ok := in.(*ssa.FieldAddr); ok {
		f := fieldOfAddr(fa)
		if f == w.bufF || f == w.strF {
			return f
		}
	}
	return nil
}

// touches: fn (transitively over static module callees and closures) accesses the message's buffer or stream.
func (w *wireAnchors) touches(fn *ssa.Function) bool {
	if fn == nil || fn.Blocks == nil {
		return false
	}
	if pk := fnPkg(fn); pk == nil || !inModule(pk.Path()) {
		return false
	}
	switch w.touchMemo[fn] {
	case 1, 3:
		return false
	case 2:
		return true
	}
	w.touchMemo[fn] = 1
	res := false
	for _, f := range withClosures(fn) {
		allInstrs(f, func(_ *ssa.BasicBlock, _ int, in ssa.Instruction) {
			if res {
				return
			}
			if w.msgField(in) != nil {
				res = true
				return
			}
			if call, ok := in.(ssa.CallInstruction); ok {
				if g := calleeFn(call); g != nil && g != fn && w.touches(g) {
					res = true
				}
			}
		})
	}
	if res {
		w.touchMemo[fn] = 2
	} else {
		w.touchMemo[fn] = 3
	}
	return res
}

// invokeKind classifies a call on the stream (interface invoke or static method): PREP, REST, NOOP, ENC, RW or "".
func (w *wireAnchors) streamCall(call ssa.CallInstruction) string {
	o := calleeObj(call)
	if o == nil {
		return ""
	}
	switch {
	case w.streamPrep[o]:
		return "PREP"
	case w.streamRest[o]:
		return "REST"
	case w.streamNoop[o]:
		return "NOOP"
	case w.streamIsEnc[o]:
		return "ENC"
	case w.streamRW[o]:
		return "RW"
	}
	// a differently declared interface with the same method set (e.g. a local copy) is matched by name + receiver being the message's stream
	if call.Common().IsInvoke() {
		switch call.Common().Method.Name() {
		case "PrepareCryptoForSecret":
			return "PREP"
		case "RestoreCryptoAfterSecret":
			return "REST"
		}
	}
	return ""
}

// isMarkerConst: v is the constant string equal to SecretMarker.
func (w *wireAnchors) isMarkerConst(v ssa.Value) bool {
	s, ok := constString(v)
	return ok && s == w.marker
}

// itemAct is the item-level labeler shared by receivers and senders:
// INT / STR / MARK (a string write of the marker constant) / FLUSH / PREP / REST, inlining of module callees
// that touch the message, RAW? for byte-level message operations that are not items.
func (w *wireAnchors) itemAct(fn *ssa.Function, call ssa.CallInstruction) wireAct {
	switch w.streamCall(call) {
	case "PREP":
		return wireAct{Label: "PREP"}
	case "REST":
		return wireAct{Label: "REST"}
	case "RW":
		return wireAct{Label: "RAW?frame-io"}
	case "NOOP", "ENC":
		return wireAct{}
	}
	g := calleeFn(call)
	if g == nil {
		// dynamic call: harmless unless it is handed the message
		for _, a := range call.Common().Args {
			if w.isMessage(a.Type()) {
				return wireAct{Label: "DYNAMIC?"}
			}
		}
		if call.Common().IsInvoke() && w.isMessage(call.Common().Value.Type()) {
			return wireAct{Label: "DYNAMIC?"}
		}
		return wireAct{}
	}
	switch {
	case w.intReaders[g], w.intWriters[g]:
		return wireAct{Label: "INT"}
	case w.strReaders[g], w.matchers[g]:
		return wireAct{Label: "STR"}
	case w.strWriters[g]:
		args := call.Common().Args
		if len(args) > 0 && w.isMarkerConst(args[len(args)-1]) {
			return wireAct{Label: "MARK"}
		}
		return wireAct{Label: "STR"}
	case g == w.flush:
		return wireAct{Label: "FLUSH"}
	case g == w.ensure:
		return wireAct{} // pulls frames into the buffer; consumes nothing of the message
	case w.rawMsg[g], w.nbytes[g]:
		return wireAct{Label: "RAW?" + g.Name()}
	}
	if w.touches(g) {
		return wireAct{Inline: g}
	}
	return wireAct{}
}

func (w *wireAnchors) isMessage(t types.Type) bool {
	if p, ok := t.Underlying().(*types.Pointer); ok {
		t = p.Elem()
	}
	n, ok := t.(*types.Named)
	return ok && n.Obj().Name() == "Message" && n.Obj().Pkg() != nil && n.Obj().Pkg().Path() == ModPath+"/message"
}

// itemOther: a consuming access to Message.buffer inside a function abstracted at item level cannot be
// followed (reads of its length or contents without consuming are harmless).
func (w *wireAnchors) itemOther(fn *ssa.Function, in ssa.Instruction) string {
	fa, ok := in.(*ssa.FieldAddr)
	if !ok || w.msgField(in) != w.bufF {
		return ""
	}
	for _, r := range *fa.Referrers() {
		ld, ok := r.(*ssa.UnOp)
		if !ok {
			return "RAW?buffer" // stored to or address taken
		}
		for _, u := range *ld.Referrers() {
			call, ok := u.(ssa.CallInstruction)
			if !ok {
				if _, isDbg := u.(*ssa.DebugRef); isDbg {
					continue
				}
				return "RAW?buffer"
			}
			g := calleeFn(call)
			if g == nil {
				return "RAW?buffer"
			}
			switch g.Name() {
			case "Len", "Bytes", "Cap", "String", "Available":
			default:
				return "RAW?buffer." + g.Name()
			}
		}
	}
	return ""
}

// strResult: every origin of v is result #0 of a call labelled STR by itemAct (the string just read).
func (w *wireAnchors) strResult(fn *ssa.Function, v ssa.Value) bool {
	os := origins(fn, v)
	if len(os) == 0 {
		return false
	}
	for _, o := range os {
		call, idx := originCall(o)
		if call == nil || idx != 0 {
			return false
		}
		if act := w.itemAct(fn, call); act.Label != "STR" {
			return false
		}
	}
	return true
}

// markerEdges labels the branch "the string just read is the secret marker": M+ on the equal edge, M- on the other.
// Two forms are recognised: s == SecretMarker (s a result of a string reader), and a boolean result of a
// verified matching reader that was handed the SecretMarker constant.
func (w *wireAnchors) markerEdges(fn *ssa.Function, b *ssa.BasicBlock) (t, f string) {
	ifi := blockIf(b)
	if ifi == nil {
		return
	}
	a := condAtom(ifi.Cond)
	eq := false
	switch a.Op {
	case token.EQL, token.NEQ:
		var other ssa.Value
		if w.isMarkerConst(a.X) {
			other = a.Y
		} else if w.isMarkerConst(a.Y) {
			other = a.X
		} else {
			return
		}
		if !w.strResult(fn, other) {
			return "M?", "M?"
		}
		eq = a.Op == token.EQL
	case token.ILLEGAL:
		os := origins(fn, a.X)
		if len(os) != 1 {
			return
		}
		call, _ := originCall(os[0])
		if call == nil {
			return
		}
		g := calleeFn(call)
		if g == nil || !w.matchers[g] {
			return
		}
		hasMarker := false
		for _, arg := range call.Common().Args {
			if w.isMarkerConst(arg) {
				hasMarker = true
			}
		}
		if !hasMarker {
			return "M?", "M?"
		}
		eq = true
	default:
		return
	}
	if a.Neg {
		eq = !eq
	}
	if eq {
		return "M+", "M-"
	}
	return "M-", "M+"
}

// strResultFr is strResult in a calling context: the value may be a helper's parameter (traced to the caller's
// argument) or the result of a same-module value helper.
func (w *wireAnchors) strResultFr(fr *cxFrame, v ssa.Value) bool {
	isItem := func(f *cxFrame, call ssa.CallInstruction) bool {
		return w.itemAct(f.fn, call).Label == "STR"
	}
	os := w.c.cxOriginsOK(fr, v, isItem)
	if len(os) == 0 {
		return false
	}
	for _, o := range os {
		call, idx := originCall(o.v)
		if call == nil || idx != 0 || !isItem(o.fr, call) {
			return false
		}
	}
	return true
}

// markerEdgesFr is markerEdges with helper following: the test may be written inline, kept in a local boolean,
// or sit in a same-module predicate that is handed the string just read (c.cxValueFact). The branch is labelled
// only when the condition is equivalent to "the string equals SecretMarker" (or its negation).
func (w *wireAnchors) markerEdgesFr(fr *cxFrame, b *ssa.BasicBlock) (t, f string) {
	ifi := blockIf(b)
	if ifi == nil {
		return
	}
	unknown := false
	// eq: the atom says "string just read == marker" on its true (eqOnTrue) or false edge
	classify := func(fr *cxFrame, a Atom) (isTest, eqOnTrue bool) {
		switch a.Op {
		case token.EQL, token.NEQ:
			var other ssa.Value
			if w.isMarkerConst(fr.resolve(a.X).v) {
				other = a.Y
			} else if w.isMarkerConst(fr.resolve(a.Y).v) {
				other = a.X
			} else {
				return false, false
			}
			if !w.strResultFr(fr, other) {
				unknown = true
				return false, false
			}
			eq := a.Op == token.EQL
			if a.Neg {
				eq = !eq
			}
			return true, eq
		case token.ILLEGAL:
			if a.X == nil {
				return false, false
			}
			os := origins(fr.fn, a.X)
			if len(os) != 1 {
				return false, false
			}
			call, _ := originCall(os[0])
			if call == nil {
				return false, false
			}
			g := calleeFn(call)
			if g == nil || !w.matchers[g] {
				return false, false
			}
			hasMarker := false
			for _, arg := range call.Common().Args {
				if w.isMarkerConst(fr.resolve(arg).v) {
					hasMarker = true
				}
			}
			if !hasMarker {
				unknown = true
				return false, false
			}
			return true, !a.Neg
		}
		return false, false
	}
	atomEQ := func(fr *cxFrame, a Atom) (bool, bool) {
		is, eqT := classify(fr, a)
		return is && eqT, is && !eqT
	}
	atomNE := func(fr *cxFrame, a Atom) (bool, bool) {
		is, eqT := classify(fr, a)
		return is && !eqT, is && eqT
	}
	tEQ, fEQ := w.c.cxValueFact(fr, ifi.Cond, atomEQ, cxDepth)
	tNE, fNE := w.c.cxValueFact(fr, ifi.Cond, atomNE, cxDepth)
	if k, isC := constBool(ifi.Cond); isC {
		_ = k
		return // a constant condition establishes nothing
	}
	switch {
	case tEQ && fNE && !(tNE || fEQ):
		return "M+", "M-"
	case fEQ && tNE && !(tEQ || fNE):
		return "M-", "M+"
	case tEQ || fEQ || tNE || fNE || unknown:
		return "M?", "M?"
	}
	return
}

// toggleEdges labels a test of "the stream implements the crypto-for-secret toggle": the ok result of
// m.stream.(secretCrypto), or a nil test of the asserted value. T+ on the edge where it does, T- on the other.
func (w *wireAnchors) toggleEdges(fr *cxFrame, b *ssa.BasicBlock) (t, f string) {
	ifi := blockIf(b)
	if ifi == nil {
		return
	}
	isToggleAssert := func(ta *ssa.TypeAssert) bool {
		if _, fld, ok := fieldRead(ta.X); !ok || fld != w.strF {
			return false
		}
		it, ok := ta.AssertedType.Underlying().(*types.Interface)
		if !ok {
			return false
		}
		for i := 0; i < it.NumMethods(); i++ {
			if n := it.Method(i).Name(); n == "PrepareCryptoForSecret" || n == "RestoreCryptoAfterSecret" {
				return true
			}
		}
		return false
	}
	a := condAtom(ifi.Cond)
	switch a.Op {
	case token.ILLEGAL:
		ex, ok := a.X.(*ssa.Extract)
		if !ok || ex.Index != 1 {
			return
		}
		ta, ok := ex.Tuple.(*ssa.TypeAssert)
		if !ok || !ta.CommaOk || !isToggleAssert(ta) {
			return
		}
		if a.Neg {
			return "T-", "T+"
		}
		return "T+", "T-"
	case token.EQL, token.NEQ:
		var other ssa.Value
		if isNilConst(a.Y) {
			other = a.X
		} else if isNilConst(a.X) {
			other = a.Y
		} else {
			return
		}
		os := cxOrigins(fr, other, nil)
		if len(os) == 0 {
			return
		}
		for _, o := range os {
			ex, ok := o.v.(*ssa.Extract)
			if !ok || ex.Index != 0 {
				return
			}
			ta, ok := ex.Tuple.(*ssa.TypeAssert)
			if !ok || !ta.CommaOk || !isToggleAssert(ta) {
				return
			}
		}
		isNil := a.Op == token.EQL
		if a.Neg {
			isNil = !isNil
		}
		if isNil {
			return "T-", "T+"
		}
		return "T+", "T-"
	}
	return
}

// itemEdgesFr labels the branches that matter at item level: the secret-marker test and the toggle test.
func (w *wireAnchors) itemEdgesFr(fr *cxFrame, b *ssa.BasicBlock) (t, f string) {
	if t, f = w.markerEdgesFr(fr, b); t != "" || f != "" {
		return
	}
	return w.toggleEdges(fr, b)
}

// ---------------------------------------------------------------------------
// byte level: how one string is framed

// byteAct labels the byte-level operations of a string reader: INT (length prefix), NBYTES (exactly the
// prefixed number of bytes), BYTE (one byte), BUF? (any other consuming buffer operation).
func (w *wireAnchors) byteAct(fn *ssa.Function, call ssa.CallInstruction) wireAct {
	switch w.streamCall(call) {
	case "ENC", "NOOP":
		return wireAct{}
	case "PREP", "REST", "RW":
		return wireAct{Label: "STREAM?"}
	}
	g := calleeFn(call)
	if g == nil {
		return wireAct{}
	}
	args := call.Common().Args
	switch {
	case w.intReaders[g]:
		return wireAct{Label: "INT"}
	case g == w.ensure:
		return wireAct{}
	case w.nbytes[g]:
		if len(args) == 3 && w.fromIntReader(fn, args[2]) {
			return wireAct{Label: "NBYTES"}
		}
		return wireAct{Label: "NBYTES?"}
	case w.strReaders[g], w.rawMsg[g], g == w.flush, w.strWriters[g], w.intWriters[g]:
		return wireAct{Label: "NESTED?" + g.Name()}
	}
	if full := g.String(); full == "io.ReadFull" && len(args) == 2 {
		if w.readsBuffer(args[0]) {
			if ms, ok := memRoot(args[1]).(*ssa.MakeSlice); ok && w.fromIntReader(fn, ms.Len) {
				return wireAct{Label: "NBYTES"}
			}
			return wireAct{Label: "NBYTES?"}
		}
		return wireAct{}
	}
	// methods of the frame buffer
	if recv := g.Signature.Recv(); recv != nil && len(args) > 0 && w.readsBuffer(args[0]) {
		switch g.Name() {
		case "ReadByte":
			return wireAct{Label: "BYTE"}
		case "Len", "Bytes", "Cap", "String":
			return wireAct{}
		default:
			return wireAct{Label: "BUF?" + g.Name()}
		}
	}
	if w.touches(g) {
		return wireAct{Inline: g}
	}
	return wireAct{}
}

// byteActFr is byteAct in a calling context: the buffer filled by io.ReadFull and the count handed to
// discard/GetBytes may be parameters of a read-exactly helper (traced to the caller's values).
func (w *wireAnchors) byteActFr(fr *cxFrame, call ssa.CallInstruction) wireAct {
	act := w.byteAct(fr.fn, call)
	if act.Label != "NBYTES?" {
		return act
	}
	g := calleeFn(call)
	args := call.Common().Args
	switch {
	case g != nil && w.nbytes[g] && len(args) == 3:
		if w.fromIntReaderFr(fr, args[2]) {
			return wireAct{Label: "NBYTES"}
		}
	case g != nil && g.String() == "io.ReadFull" && len(args) == 2:
		buf := fr.resolve(args[1])
		if ms, ok := memRoot(buf.v).(*ssa.MakeSlice); ok && w.fromIntReaderFr(buf.fr, ms.Len) {
			return wireAct{Label: "NBYTES"}
		}
	}
	return act
}

// fromIntReaderFr is fromIntReader in a calling context.
func (w *wireAnchors) fromIntReaderFr(fr *cxFrame, v ssa.Value) bool {
	isReader := func(_ *cxFrame, call ssa.CallInstruction) bool {
		g := calleeFn(call)
		return g != nil && w.intReaders[g]
	}
	os := w.c.cxOriginsOK(fr, v, isReader)
	if len(os) == 0 {
		return false
	}
	for _, o := range os {
		call, idx := originCall(o.v)
		if call == nil || idx != 0 || !isReader(o.fr, call) {
			return false
		}
	}
	return true
}

// readsBuffer: v is (an interface holding) the value loaded from Message.buffer.
func (w *wireAnchors) readsBuffer(v ssa.Value) bool {
	return readsField(stripConv(v), w.bufF)
}

// fromIntReader: v is a conversion of result #0 of an INT reader call (the length prefix just read).
func (w *wireAnchors) fromIntReader(fn *ssa.Function, v ssa.Value) bool {
	os := origins(fn, v)
	if len(os) == 0 {
		return false
	}
	for _, o := range os {
		call, idx := originCall(o)
		if call == nil || idx != 0 {
			return false
		}
		if g := calleeFn(call); g == nil || !w.intReaders[g] {
			return false
		}
	}
	return true
}

// byteEdges labels E+/E- (stream is encrypting: length-prefixed framing) and Z+/Z- (the byte just read is NUL).
func (w *wireAnchors) byteEdges(fn *ssa.Function, b *ssa.BasicBlock) (t, f string) {
	ifi := blockIf(b)
	if ifi == nil {
		return
	}
	a := condAtom(ifi.Cond)
	switch a.Op {
	case token.ILLEGAL:
		for _, o := range origins(fn, a.X) {
			call, _ := originCall(o)
			if call == nil || w.streamCall(call) != "ENC" {
				return
			}
		}
		if len(origins(fn, a.X)) == 0 {
			return
		}
		if a.Neg {
			return "E-", "E+"
		}
		return "E+", "E-"
	case token.EQL, token.NEQ:
		var other ssa.Value
		if z, ok := constInt(a.Y); ok && z == 0 {
			other = a.X
		} else if z, ok := constInt(a.X); ok && z == 0 {
			other = a.Y
		} else {
			return
		}
		os := origins(fn, other)
		if len(os) == 0 {
			return
		}
		for _, o := range os {
			call, idx := originCall(o)
			if call == nil || idx != 0 {
				return
			}
			if act := w.byteAct(fn, call); act.Label != "BYTE" {
				return
			}
		}
		eq := a.Op == token.EQL
		if a.Neg {
			eq = !eq
		}
		if eq {
			return "Z+", "Z-"
		}
		return "Z-", "Z+"
	}
	return
}

func c08WordString(w []string) string {
	if len(w) == 0 {
		return "<nothing>"
	}
	return strings.Join(w, " ")
}

// c08RuleTimer prints the wall time of one rule to stderr when CEDARCHECK_TIMING is set (rule authors' aid).
func c08RuleTimer(rule string) func() {
	if os.Getenv("CEDARCHECK_TIMING") == "" {
		return func() {}
	}
	t := time.Now()
	return func() { fmt.Fprintf(os.Stderr, "timing %s %.3fs\n", rule, time.Since(t).Seconds()) }
}
