package main

import (
	"fmt"
	"go/constant"
	"go/token"
	"go/types"
	"time"

	"golang.org/x/tools/go/ssa"
)

func init() {
	register("C18", c18Timed("R1", c18r1), c18Timed("R2", c18r2), c18Timed("R3", c18r3), c18Timed("R4", c18r4), c18Timed("R5", c18r5), c18Timed("R6", c18r6))
}

// c18Timed notes the wall time of a rule in the evidence.
func c18Timed(name string, f ruleFn) ruleFn {
	return func(c *Ctx) {
		t0 := time.Now()
		defer func() { c.Note("C18-%s took %.2fs", name, time.Since(t0).Seconds()) }()
		f(c)
	}
}

const c18Client = "(*Authenticator).performFSAuthenticationClient"
const c18Server = "(*Authenticator).performFSAuthenticationServer"

// c18ClientFacts are the anchors of the client exchange shared by R1, R2, R4 and R5.
type c18ClientFacts struct {
	fn       *ssa.Function
	validate *ssa.Function
	vcall    ssa.CallInstruction // the validateFSAuthPath call
	vsucc    []Edge              // its nil-error edges
	leaf     ssa.Value           // result #0 of that call
	openRoot *types.Func
	mkdir    *types.Func
	remove   *types.Func
	closeFn  *types.Func
}

func (c *Ctx) c18ClientAnchors(rule string) *c18ClientFacts {
	f := &c18ClientFacts{}
	f.fn = c.needFn(rule, "security", c18Client)
	f.validate = c.needFn(rule, "security", "validateFSAuthPath")
	f.openRoot = c.c18ExtFn(rule, "os", "OpenRoot")
	f.mkdir = c.c18ExtFn(rule, "os", "Root.Mkdir")
	f.remove = c.c18ExtFn(rule, "os", "Root.Remove")
	f.closeFn = c.c18ExtFn(rule, "os", "Root.Close")
	if f.fn == nil || f.validate == nil || f.openRoot == nil || f.mkdir == nil || f.remove == nil || f.closeFn == nil {
		return nil
	}
	calls := callsIn(f.fn, f.validate.Object())
	if len(calls) != 1 {
		c.Undecided(rule, fnName(f.fn)+"#validate-call", fmt.Sprintf("expected exactly one validateFSAuthPath call in the client exchange, found %d", len(calls)), f.fn.Pos())
		return nil
	}
	f.vcall = calls[0]
	succ, _, checked := callErrEdges(f.fn, f.vcall.Value())
	if !checked {
		c.Violate(rule, fnName(f.fn)+"#validate-call", "the error result of validateFSAuthPath is never tested", f.vcall.Pos())
		return nil
	}
	f.vsucc = succ
	f.leaf = extractN(f.vcall.Value(), 0)
	return f
}

// c18FSCalls lists the filesystem-touching calls of fn and its closures.
func c18FSCalls(fn *ssa.Function) []CallSite {
	var out []CallSite
	for _, g := range withClosures(fn) {
		allInstrs(g, func(_ *ssa.BasicBlock, _ int, in ssa.Instruction) {
			if call, ok := in.(ssa.CallInstruction); ok && c18IsFSCall(call) {
				out = append(out, CallSite{g, call})
			}
		})
	}
	return out
}

// C18-R1: validate before any filesystem effect, on the right inputs, through the rooted handle.
func c18r1(c *Ctx) {
	const rule = "C18-R1"
	c.Doc(rule, "performFSAuthenticationClient: every call into os/syscall is dominated by the nil-error edge of validateFSAuthPath(path received from the peer, remote, RemoteAddr() of the live connection); the only such calls are os.OpenRoot on the constant base directory the validator compares against and methods of the *os.Root it returned, whose name arguments are result #0 of the validator; the validator and its helpers touch no filesystem")
	f := c.c18ClientAnchors(rule)
	if f == nil {
		return
	}
	fn := f.fn
	base, okBase := c.c18ConstString(rule, "security", "fsAuthBaseDir")
	args := f.vcall.Common().Args
	// provenance of the validator's arguments
	getStr := c.needFn(rule, "message", "(*Message).GetStringWithMaxSize")
	getConn := c.needFn(rule, "stream", "(*Stream).GetConnection")
	if len(args) != 3 || getStr == nil || getConn == nil {
		c.Undecided(rule, fnName(fn)+"#validate-args", "unexpected validateFSAuthPath signature", f.vcall.Pos())
		return
	}
	okPath := false
	for _, o := range c18Origins(args[0]) {
		okPath = c18CallOf(o, getStr.Object(), 0) != nil
		if !okPath {
			break
		}
	}
	c.Check(okPath, rule, fnName(fn)+"#validate-arg:path", "the validated string is the one received from the peer", "the string handed to validateFSAuthPath is not (only) the path received from the peer", f.vcall.Pos())
	okRemote := len(fn.Params) == 4 && args[1] == ssa.Value(fn.Params[3])
	c.Check(okRemote, rule, fnName(fn)+"#validate-arg:remote", "the mode flag is the function's own", "the remote flag handed to validateFSAuthPath is not the exchange's own mode", f.vcall.Pos())
	okAddr, nAddr := true, 0
	for _, o := range c18Origins(args[2]) {
		if isNilConst(o) {
			continue // no connection: verifyFSPathEndpoint refuses a nil address (R3)
		}
		call, isCall := o.(*ssa.Call)
		good := false
		if isCall && call.Call.IsInvoke() && call.Call.Method.Name() == "RemoteAddr" {
			for _, r := range c18Origins(call.Call.Value) {
				if c18CallOf(r, getConn.Object(), 0) != nil {
					good = true
				} else {
					good = false
					break
				}
			}
		}
		if good {
			nAddr++
		} else {
			okAddr = false
		}
	}
	c.Check(okAddr && nAddr > 0, rule, fnName(fn)+"#validate-arg:peerAddr", "the endpoint is RemoteAddr() of the stream's connection", "the address handed to validateFSAuthPath is not RemoteAddr() of the live connection", f.vcall.Pos())

	// every filesystem call
	var roots []ssa.Value
	for _, cs := range callsIn(fn, f.openRoot) {
		roots = append(roots, extractN(cs.Value(), 0))
	}
	rootSet := c18Set(roots...)
	leafSet := c18Set(f.leaf)
	cuts := newCuts().AddEdges(f.vsucc...)
	n := 0
	ord := map[string]int{}
	for _, cs := range c18FSCalls(fn) {
		n++
		_, name := c18CalleePkg(cs.Call)
		o := calleeObj(cs.Call)
		construct := fmt.Sprintf("%s#fs-call:%s", fnName(cs.Fn), o.FullName())
		ord[construct]++
		if k := ord[construct]; k > 1 {
			construct += fmt.Sprintf("#%d", k)
		}
		cargs := cs.Call.Common().Args
		recv := o.Type().(*types.Signature).Recv()
		isRootMethod := recv != nil && c18IsRootPtr(recv.Type())
		// Methods of *os.Root are tied to the validated region through their receiver (a root that
		// was opened there, or nil = no effect); everything else must itself be dominated.
		if !isRootMethod {
			if cs.Fn != fn {
				c.Undecided(rule, construct, "filesystem call inside a closure: cannot place it relative to the validation", cs.Call.Pos())
				continue
			}
			if p := findPath(entryPoint(fn), Target{Instr: cs.Call}, cuts); p != nil {
				c.Violate(rule, construct, "filesystem call reachable without a successful validateFSAuthPath", cs.Call.Pos(), c.describePath(p)...)
				continue
			}
		}
		switch {
		case types.Object(o) == types.Object(f.openRoot):
			s, isC := constString(cargs[0])
			c.Check(isC && okBase && s == base, rule, construct, "the root is opened on the constant base directory", "os.OpenRoot is not called on the fsAuthBaseDir constant the validator compares against", cs.Call.Pos())
		case isRootMethod:
			good := c18AllIn(cargs[0], rootSet)
			why := "receiver is not the root opened on the base directory"
			for i, a := range cargs[1:] {
				if bt, ok := a.Type().Underlying().(*types.Basic); ok && bt.Kind() == types.String {
					if !c18AllIn(a, leafSet) {
						good = false
						why = fmt.Sprintf("argument %d of %s is not the name returned by validateFSAuthPath", i+1, name)
					}
				}
			}
			c.Check(good, rule, construct, "operates on the validated name inside the root opened on the base directory", why, cs.Call.Pos())
		default:
			c.Undecided(rule, construct, "filesystem call outside the rooted handle: cannot relate its path to the validated name", cs.Call.Pos())
		}
	}
	c.MinCount(rule, "filesystem calls in the client exchange", n, 4)
	// the validator and the same-package helpers it reaches have no filesystem calls
	clean, helpers := true, 0
	for g := range c.reachableFns([]*ssa.Function{f.validate}, false) {
		if fnPkg(g) != fnPkg(fn) {
			continue
		}
		helpers++
		for _, cs := range c18FSCalls(g) {
			clean = false
			c.Violate(rule, fnName(g)+"#fs-call:"+calleeObj(cs.Call).FullName(), "the validator touches the filesystem before the path is accepted", cs.Call.Pos())
		}
	}
	if clean {
		c.Ok(rule, "validator#no-fs-call", fmt.Sprintf("validateFSAuthPath and its %d helper(s) make no os/syscall call", helpers-1), f.validate.Pos())
	}
	// other same-package functions the exchange calls must not touch the filesystem either
	for g := range c.reachableFns([]*ssa.Function{fn}, false) {
		if fnPkg(g) != fnPkg(fn) || topFn(g) == fn {
			continue
		}
		for _, cs := range c18FSCalls(g) {
			c.Violate(rule, fnName(g)+"#fs-call:"+calleeObj(cs.Call).FullName(), "a helper of the client exchange touches the filesystem outside the validated region", cs.Call.Pos())
		}
	}
	c.MinCount(rule, "validator functions inspected", helpers, 3)
}

func c18IsRootPtr(t types.Type) bool {
	p, ok := t.(*types.Pointer)
	if !ok {
		return false
	}
	n, ok := p.Elem().(*types.Named)
	return ok && n.Obj().Pkg() != nil && n.Obj().Pkg().Path() == "os" && n.Obj().Name() == "Root"
}

// C18-R2: at most one directory.
func c18r2(c *Ctx) {
	const rule = "C18-R2"
	c.Doc(rule, "performFSAuthenticationClient (with closures and same-package callees) contains exactly one call that can create a filesystem object, (*os.Root).Mkdir, and it is not on a cycle of the control-flow graph")
	f := c.c18ClientAnchors(rule)
	if f == nil {
		return
	}
	fn := f.fn
	n := 0
	var mk ssa.CallInstruction
	for g := range c.reachableFns([]*ssa.Function{fn}, false) {
		if fnPkg(g) != fnPkg(fn) {
			continue
		}
		for _, cs := range c18FSCalls(g) {
			_, name := c18CalleePkg(cs.Call)
			if !c18CreatorNames[name] {
				continue
			}
			n++
			if types.Object(calleeObj(cs.Call)) == types.Object(f.mkdir) && cs.Fn == fn && mk == nil {
				mk = cs.Call
				continue
			}
			c.Violate(rule, fnName(cs.Fn)+"#creates:"+calleeObj(cs.Call).FullName(), "a second call that can create a filesystem object in the client exchange", cs.Call.Pos())
		}
	}
	if mk == nil {
		c.Violate(rule, fnName(fn)+"#Mkdir", "no (*os.Root).Mkdir call in the client exchange", fn.Pos())
	} else {
		_, isDefer := mk.(*ssa.Defer)
		loop := findPath(after(mk), Target{Instr: mk}, nil)
		c.Check(loop == nil && !isDefer, rule, fnName(fn)+"#Mkdir-once", "Mkdir is executed at most once per exchange", "Mkdir can be executed more than once in one exchange (it is on a cycle)", mk.Pos(), c.describePath(loop)...)
	}
	c.MinCount(rule, "creating calls", n, 1)
}

// C18-R3: composition of the validator.
func c18r3(c *Ctx) {
	const rule = "C18-R3"
	c.Doc(rule, "validateFSAuthPath: every success return passes non-empty, filepath.IsAbs, Clean(p)==p, Dir(p)==fsAuthBaseDir, and then either verifyFSPathEndpoint==nil on the fields fsAddrLeaf extracted (ok edge) or MatchString of a package-level pattern that is ^…$-anchored as a whole and admits no '/' or NUL; the returned name is filepath.Base(p). fsAddrLeaf says ok only after prefix, three fields, ParseIP and the suffix pattern; verifyFSPathEndpoint succeeds only after non-nil address, equal port and IP.Equal")
	v := c.needFn(rule, "security", "validateFSAuthPath")
	fal := c.needFn(rule, "security", "fsAddrLeaf")
	vep := c.needFn(rule, "security", "verifyFSPathEndpoint")
	isAbs := c.c18ExtFn(rule, "path/filepath", "IsAbs")
	clean := c.c18ExtFn(rule, "path/filepath", "Clean")
	dir := c.c18ExtFn(rule, "path/filepath", "Dir")
	baseFn := c.c18ExtFn(rule, "path/filepath", "Base")
	match := c.c18ExtFn(rule, "regexp", "Regexp.MatchString")
	base, okBase := c.c18ConstString(rule, "security", "fsAuthBaseDir")
	if v == nil || fal == nil || vep == nil || isAbs == nil || clean == nil || dir == nil || baseFn == nil || match == nil || !okBase {
		return
	}
	if len(v.Params) != 3 {
		c.Undecided(rule, fnName(v)+"#signature", "unexpected validateFSAuthPath signature", v.Pos())
		return
	}
	p0 := ssa.Value(v.Params[0])
	isP0 := func(x ssa.Value) bool { return x == p0 }
	callOn := func(x ssa.Value, f *types.Func, arg func(ssa.Value) bool) bool {
		call := c18CallOf(x, f, 0)
		return call != nil && len(call.Common().Args) == 1 && arg(call.Common().Args[0])
	}
	isLeaf := func(x ssa.Value) bool {
		for _, o := range c18Origins(x) {
			if !callOn(o, baseFn, isP0) {
				return false
			}
		}
		return true
	}
	succ := c18RetTargets(c.successTargets(v))
	name := fnName(v)
	// 1 non-empty
	_, ne := c18CmpEdges(v, func(x, y ssa.Value) bool { s, ok := constString(y); return x == p0 && ok && s == "" })
	c.c18MustPass(rule, name+"#non-empty", v, nil, succ, newCuts().AddEdges(ne...), len(ne), "the path != \"\" edge", v.Pos())
	// 2 absolute
	var absT []Edge
	for _, cs := range callsIn(v, isAbs) {
		if cs.Common().Args[0] == p0 {
			t, _ := boolEdges(v, cs.Value())
			absT = append(absT, t...)
		}
	}
	c.c18MustPass(rule, name+"#absolute", v, nil, succ, newCuts().AddEdges(absT...), len(absT), "the true edge of filepath.IsAbs(path)", v.Pos())
	// 3 canonical
	eq, _ := c18CmpEdges(v, func(x, y ssa.Value) bool { return callOn(x, clean, isP0) && y == p0 })
	c.c18MustPass(rule, name+"#canonical", v, nil, succ, newCuts().AddEdges(eq...), len(eq), "the filepath.Clean(path) == path edge", v.Pos())
	// 4 parent is the base
	eq, _ = c18CmpEdges(v, func(x, y ssa.Value) bool {
		s, ok := constString(y)
		return callOn(x, dir, isP0) && ok && s == base
	})
	c.c18MustPass(rule, name+"#parent-is-base", v, nil, succ, newCuts().AddEdges(eq...), len(eq), "the filepath.Dir(path) == fsAuthBaseDir edge", v.Pos())
	// 5 leaf form: endpoint-checked address form, or an anchored pattern
	var formEdges []Edge
	nForm := 0
	for _, cs := range callsIn(v, vep.Object()) {
		a := cs.Common().Args
		// arguments: ip and port as extracted by fsAddrLeaf from the leaf, on its ok edge; the caller's address
		ipCall := c18CallOf(a[0], fal.Object(), 0)
		portCall := c18CallOf(a[1], fal.Object(), 1)
		good := ipCall != nil && ipCall == portCall && a[2] == ssa.Value(v.Params[2]) && isLeaf(ipCall.Common().Args[0]) && ipCall.Common().Args[1] == ssa.Value(v.Params[1])
		if good {
			okE, _ := boolEdges(v, extractN(ipCall.Value(), 2))
			good = len(okE) > 0 && findPath(entryPoint(v), Target{Instr: cs}, newCuts().AddEdges(okE...)) == nil
		}
		c.Check(good, rule, name+"#endpoint-args", "verifyFSPathEndpoint receives the ip/port fsAddrLeaf extracted from the leaf (ok edge) and the caller's address", "verifyFSPathEndpoint is not applied to the fields fsAddrLeaf(leaf, remote) reported ok, or not to the connection address", cs.Pos())
		if s, _, checked := callErrEdges(v, cs.Value()); checked && good {
			formEdges = append(formEdges, s...)
			nForm++
		}
	}
	patterns := map[*ssa.Global]bool{}
	for _, cs := range callsIn(v, match) {
		a := cs.Common().Args
		good := isLeaf(a[1])
		for _, o := range c18Origins(a[0]) {
			ld, ok := o.(*ssa.UnOp)
			g, isG := (ssa.Value)(nil), false
			if ok && ld.Op == token.MUL {
				g, isG = ld.X.(*ssa.Global)
			}
			if !isG {
				good = false
				continue
			}
			patterns[g.(*ssa.Global)] = true
		}
		c.Check(good, rule, name+"#pattern-args", "the leaf is matched against package-level patterns", "MatchString is not applied to filepath.Base(path) with a package-level pattern", cs.Pos())
		if good {
			t, _ := boolEdges(v, cs.Value())
			formEdges = append(formEdges, t...)
			nForm++
		}
	}
	c.c18MustPass(rule, name+"#leaf-form", v, nil, succ, newCuts().AddEdges(formEdges...), nForm, "verifyFSPathEndpoint == nil or a leaf-pattern match", v.Pos())
	// 6 returned name
	okRet := len(succ) > 0
	for _, t := range c.successTargets(v) {
		if !isLeaf(t.Ret.Results[0]) {
			okRet = false
		}
	}
	c.Check(okRet, rule, name+"#result", "the returned name is filepath.Base(path)", "a success return yields something other than filepath.Base(path)", v.Pos())
	c.MinCount(rule, "success returns of validateFSAuthPath", len(succ), 2)

	// fsAddrLeaf
	c.c18FsAddrLeaf(rule, fal, match, patterns)
	// patterns
	np := 0
	for g := range patterns {
		np++
		pat, ok, writers := c.c18GlobalRegexp(g)
		construct := "pattern:" + g.Name()
		if !ok || writers != 1 {
			c.Undecided(rule, construct, fmt.Sprintf("%s is not assigned exactly once from regexp.MustCompile(<constant>) (%d writer(s))", g.Name(), writers), g.Pos())
			continue
		}
		probs := c18LeafPatternProblems(pat)
		if len(probs) == 0 {
			c.Ok(rule, construct, "pattern "+pat+" is anchored as a whole and admits no '/' or NUL", g.Pos())
		} else {
			c.Violate(rule, construct, "pattern "+pat+": "+probs[0], g.Pos(), probs...)
		}
	}
	c.MinCount(rule, "leaf patterns", np, 3)
	// verifyFSPathEndpoint
	c.c18Endpoint(rule, vep)
}

// c18FsAddrLeaf: the ok=true returns of fsAddrLeaf.
func (c *Ctx) c18FsAddrLeaf(rule string, fal *ssa.Function, match *types.Func, patterns map[*ssa.Global]bool) {
	name := fnName(fal)
	cut := c.c18ExtFn(rule, "strings", "CutPrefix")
	split := c.c18ExtFn(rule, "strings", "Split")
	parseIP := c.c18ExtFn(rule, "net", "ParseIP")
	if cut == nil || split == nil || parseIP == nil || len(fal.Params) != 2 {
		return
	}
	var okRets []Target
	for _, r := range c18AllReturns(fal) {
		if b, isC := constBool(r.Results[len(r.Results)-1]); isC && !b {
			continue
		}
		okRets = append(okRets, Target{Instr: r})
	}
	// field i of strings.Split(rest, "_") where rest is the remainder CutPrefix(leaf, prefix) reported
	field := func(x ssa.Value, i int64) bool {
		ld, ok := x.(*ssa.UnOp)
		if !ok || ld.Op != token.MUL {
			return false
		}
		ia, ok := ld.X.(*ssa.IndexAddr)
		if !ok {
			return false
		}
		idx, isC := constInt(ia.Index)
		sp := c18CallOf(ia.X, split, 0)
		if !isC || idx != i || sp == nil {
			return false
		}
		cp := c18CallOf(sp.Common().Args[0], cut, 0)
		return cp != nil && cp.Common().Args[0] == ssa.Value(fal.Params[0])
	}
	// prefix found
	var found []Edge
	for _, cs := range callsIn(fal, cut) {
		good := cs.Common().Args[0] == ssa.Value(fal.Params[0])
		for _, o := range c18Origins(cs.Common().Args[1]) {
			s, isC := constString(o)
			if !isC || len(s) < 3 || s[:3] != "FS_" {
				good = false
			}
		}
		if good {
			t, _ := boolEdges(fal, extractN(cs.Value(), 1))
			found = append(found, t...)
		}
	}
	c.c18MustPass(rule, name+"#prefix", fal, nil, okRets, newCuts().AddEdges(found...), len(found), "the found edge of strings.CutPrefix(leaf, \"FS_…\")", fal.Pos())
	// exactly three fields
	eq, _ := c18CmpEdges(fal, func(x, y ssa.Value) bool {
		n, isC := constInt(y)
		call, ok := x.(*ssa.Call)
		if !ok || !isC || n != 3 {
			return false
		}
		b, isB := call.Call.Value.(*ssa.Builtin)
		return isB && b.Name() == "len" && c18CallOf(call.Call.Args[0], split, 0) != nil
	})
	c.c18MustPass(rule, name+"#three-fields", fal, nil, okRets, newCuts().AddEdges(eq...), len(eq), "the len(fields) == 3 edge", fal.Pos())
	// first field is an IP address
	_, ne := c18CmpEdges(fal, func(x, y ssa.Value) bool {
		call := c18CallOf(x, parseIP, 0)
		return call != nil && isNilConst(y) && field(call.Common().Args[0], 0)
	})
	c.c18MustPass(rule, name+"#ip-field", fal, nil, okRets, newCuts().AddEdges(ne...), len(ne), "the net.ParseIP(fields[0]) != nil edge", fal.Pos())
	// suffix pattern
	var sfx []Edge
	for _, cs := range callsIn(fal, match) {
		a := cs.Common().Args
		ld, ok := a[0].(*ssa.UnOp)
		if !ok || ld.Op != token.MUL || !field(a[1], 2) {
			continue
		}
		if g, isG := ld.X.(*ssa.Global); isG {
			patterns[g] = true
			t, _ := boolEdges(fal, cs.Value())
			sfx = append(sfx, t...)
		}
	}
	c.c18MustPass(rule, name+"#suffix-field", fal, nil, okRets, newCuts().AddEdges(sfx...), len(sfx), "a match of the suffix pattern on fields[2]", fal.Pos())
	// results are fields 0 and 1
	okRes := len(okRets) > 0
	for _, t := range okRets {
		r := t.Instr.(*ssa.Return)
		if len(r.Results) != 3 || !field(r.Results[0], 0) || !field(r.Results[1], 1) {
			okRes = false
		}
	}
	c.Check(okRes, rule, name+"#results", "ip and port are fields 0 and 1 of the split leaf", "fsAddrLeaf does not return fields[0], fields[1] of the leaf it checked", fal.Pos())
	c.MinCount(rule, "ok returns of fsAddrLeaf", len(okRets), 1)
}

// c18Endpoint: success of verifyFSPathEndpoint.
func (c *Ctx) c18Endpoint(rule string, vep *ssa.Function) {
	name := fnName(vep)
	shp := c.c18ExtFn(rule, "net", "SplitHostPort")
	parseIP := c.c18ExtFn(rule, "net", "ParseIP")
	ipEq := c.c18ExtFn(rule, "net", "IP.Equal")
	if shp == nil || parseIP == nil || ipEq == nil || len(vep.Params) != 3 {
		return
	}
	succ := c18RetTargets(c.successTargets(vep))
	addr := ssa.Value(vep.Params[2])
	_, ne := c18CmpEdges(vep, func(x, y ssa.Value) bool { return x == addr && isNilConst(y) })
	c.c18MustPass(rule, name+"#addr-non-nil", vep, nil, succ, newCuts().AddEdges(ne...), len(ne), "the peerAddr != nil edge", vep.Pos())
	// host/port of the connection address
	fromAddr := func(x ssa.Value, idx int) bool {
		call := c18CallOf(x, shp, idx)
		if call == nil {
			return false
		}
		s, ok := call.Common().Args[0].(*ssa.Call)
		return ok && s.Call.IsInvoke() && s.Call.Method.Name() == "String" && s.Call.Value == addr
	}
	var parsed []Edge
	for _, cs := range callsIn(vep, shp) {
		if fromAddr(extractN(cs.Value(), 1), 1) || fromAddr(extractN(cs.Value(), 0), 0) {
			s, _, _ := callErrEdges(vep, cs.Value())
			parsed = append(parsed, s...)
		}
	}
	c.c18MustPass(rule, name+"#addr-parsed", vep, nil, succ, newCuts().AddEdges(parsed...), len(parsed), "a nil-error net.SplitHostPort(peerAddr.String())", vep.Pos())
	eq, _ := c18CmpEdges(vep, func(x, y ssa.Value) bool { return x == ssa.Value(vep.Params[1]) && fromAddr(y, 1) })
	c.c18MustPass(rule, name+"#port-equal", vep, nil, succ, newCuts().AddEdges(eq...), len(eq), "the namePort == connection port edge", vep.Pos())
	ipOf := func(x ssa.Value, want func(ssa.Value) bool) bool {
		call := c18CallOf(x, parseIP, 0)
		return call != nil && want(call.Common().Args[0])
	}
	isName := func(x ssa.Value) bool { return x == ssa.Value(vep.Params[0]) }
	isHost := func(x ssa.Value) bool { return fromAddr(x, 0) }
	var same []Edge
	for _, cs := range callsIn(vep, ipEq) {
		a := cs.Common().Args
		if (ipOf(a[0], isName) && ipOf(a[1], isHost)) || (ipOf(a[0], isHost) && ipOf(a[1], isName)) {
			t, _ := boolEdges(vep, cs.Value())
			same = append(same, t...)
		}
	}
	c.c18MustPass(rule, name+"#ip-equal", vep, nil, succ, newCuts().AddEdges(same...), len(same), "the true edge of IP.Equal(ParseIP(nameIP), ParseIP(connection host))", vep.Pos())
	c.MinCount(rule, "success returns of verifyFSPathEndpoint", len(succ), 1)
}

// C18-R4: created => removed, defer-aware.
func c18r4(c *Ctx) {
	const rule = "C18-R4"
	c.Doc(rule, "performFSAuthenticationClient: from the nil-error edge of (*os.Root).Mkdir(root, leaf) every path to every Return executes (*os.Root).Remove on that root and that leaf before the root is closed, directly or in a deferred closure registered on the path (closures executed at RunDefers in LIFO order; branches on captured variables decided from the values stored on the path)")
	f := c.c18ClientAnchors(rule)
	if f == nil {
		return
	}
	fn := f.fn
	mks := callsIn(fn, f.mkdir)
	nExits := 0
	for _, mk := range mks {
		if _, isDefer := mk.(*ssa.Defer); isDefer {
			c.Undecided(rule, fnName(fn)+"#Mkdir", "deferred Mkdir is not supported", mk.Pos())
			continue
		}
		succ, _, checked := callErrEdges(fn, mk.Value())
		if !checked {
			c.Violate(rule, fnName(fn)+"#Mkdir", "the error of Mkdir is never tested: success cannot be told from failure", mk.Pos())
			continue
		}
		a := mk.Common().Args
		arm := map[Edge]bool{}
		for _, e := range succ {
			arm[e] = true
		}
		sim := &c18Sim{remove: f.remove, close: f.closeFn, root: c18Set(c18Origins(a[0])...), name: c18Set(c18Origins(a[1])...), arm: arm}
		type res struct {
			guessed     bool
			path        []*ssa.BasicBlock
			closedFirst bool
		}
		bad := map[*ssa.Return]*res{}
		all := map[*ssa.Return]bool{}
		sim.run(fn, fn.Blocks[0], 0, c18State{cells: map[*ssa.Alloc]ssa.Value{}}, map[string]bool{}, nil, func(x c18Exit) {
			if !x.State.armed {
				return
			}
			all[x.Ret] = true
			if !x.State.removed {
				if prev := bad[x.Ret]; prev == nil || (prev.guessed && !x.State.guessed) {
					bad[x.Ret] = &res{guessed: x.State.guessed, path: x.Path, closedFirst: x.State.closed}
				}
			}
		})
		if sim.overflow {
			c.Undecided(rule, fnName(fn)+"#created=>removed", "path enumeration exceeded its budget", mk.Pos())
			continue
		}
		for _, r := range c18AllReturns(fn) {
			if !all[r] {
				continue
			}
			nExits++
			construct := fmt.Sprintf("%s#created=>removed@return%d", fnName(fn), retOrdinal(fn, r))
			b := bad[r]
			switch {
			case b == nil:
				c.Ok(rule, construct, "every path from a successful Mkdir to this return removes the directory", r.Pos())
			case b.guessed:
				c.Undecided(rule, construct, "a path from a successful Mkdir to this return may skip the removal: it depends on a branch over a captured variable whose value is not known", r.Pos())
			default:
				msg := "a path from a successful Mkdir reaches this return without root.Remove(leaf): the created directory is left behind"
				if b.closedFirst {
					msg += " (the root is closed on that path, so a later Remove through it cannot work either)"
				}
				c.Violate(rule, construct, msg, r.Pos(), c.describePath(b.path)...)
			}
		}
	}
	c.MinCount(rule, "Mkdir call sites", len(mks), 1)
	c.MinCount(rule, "returns reachable after a successful Mkdir", nExits, 7)
}

// C18-R5: one result integer, 0 only after a successful Mkdir.
func c18r5(c *Ctx) {
	const rule = "C18-R5"
	c.Doc(rule, "performFSAuthenticationClient: there is one PutInt call, not on a cycle; every path from the validateFSAuthPath call to a Return passes it; the integer sent is 0 only when assigned under the nil-error edge of Mkdir (all other assignments are non-zero constants)")
	f := c.c18ClientAnchors(rule)
	putInt := c.needFn(rule, "message", "(*Message).PutInt")
	if f == nil || putInt == nil {
		return
	}
	fn := f.fn
	var puts []ssa.CallInstruction
	for _, g := range withClosures(fn) {
		puts = append(puts, callsIn(g, putInt.Object())...)
	}
	if len(puts) != 1 || puts[0].Parent() != fn {
		c.Violate(rule, fnName(fn)+"#one-reply", fmt.Sprintf("expected exactly one PutInt in the client exchange, found %d", len(puts)), fn.Pos())
		c.MinCount(rule, "PutInt call sites", len(puts), 1)
		return
	}
	put := puts[0]
	loop := findPath(after(put), Target{Instr: put}, nil)
	c.Check(loop == nil, rule, fnName(fn)+"#one-reply", "the result integer is sent at most once", "the result integer can be sent more than once (PutInt is on a cycle)", put.Pos(), c.describePath(loop)...)
	var rets []Target
	for _, r := range c18AllReturns(fn) {
		rets = append(rets, Target{Instr: r})
	}
	start := after(f.vcall)
	c.c18MustPass(rule, fnName(fn)+"#reply-always", fn, &start, rets, newCuts().AddInstrs(put), 1, "the PutInt reply (whatever validateFSAuthPath said)", put.Pos())
	// value sent
	var mkSucc []Edge
	for _, mk := range callsIn(fn, f.mkdir) {
		s, _, _ := callErrEdges(fn, mk.Value())
		mkSucc = append(mkSucc, s...)
	}
	val := put.Common().Args[len(put.Common().Args)-1]
	type asg struct {
		v   ssa.Value
		blk *ssa.BasicBlock
		pos token.Pos
	}
	var asgs []asg
	if ld, ok := val.(*ssa.UnOp); ok && ld.Op == token.MUL && c18Cell(ld.X) != nil {
		for _, st := range c18CellStores(c18Cell(ld.X)) {
			if st.Parent() != fn {
				c.Undecided(rule, fnName(fn)+"#reply-value", "the result variable is assigned inside a closure", st.Pos())
				continue
			}
			asgs = append(asgs, asg{st.Val, st.Block(), st.Pos()})
		}
	} else {
		for _, l := range c18PhiLeaves(val) {
			if l.From == nil {
				l.From = put.Block()
			}
			asgs = append(asgs, asg{l.V, l.From, put.Pos()})
		}
	}
	okVal, zero := len(asgs) > 0, 0
	why := ""
	for _, a := range asgs {
		n, isC := constInt(a.v)
		if isC && n != 0 {
			continue
		}
		zero++
		if len(mkSucc) == 0 || len(a.blk.Instrs) == 0 || findPath(entryPoint(fn), Target{Instr: a.blk.Instrs[0]}, newCuts().AddEdges(mkSucc...)) != nil {
			okVal = false
			why = "the result is set to 0 (or a non-constant) at " + c.Pos(a.pos) + " outside the region dominated by a successful Mkdir"
		}
	}
	c.Check(okVal && zero > 0, rule, fnName(fn)+"#reply-value", "0 is sent only after Mkdir succeeded; all other values are non-zero constants", "success (0) can be reported without a created directory: "+why, put.Pos())
	c.MinCount(rule, "assignments of the result integer", len(asgs), 2)
}

// C18-R6: server-side verification dominates the recorded identity.
func c18r6(c *Ctx) {
	const rule = "C18-R6"
	c.Doc(rule, "performFSAuthenticationServer: the store to negotiation.User is dominated by os.Lstat==nil on the path string that was sent to the client, Mode().IsDir(), Mode()&ModeSymlink==0, Perm()==0700, Nlink==1||Nlink==2 and user.LookupId==nil on the Uid of that Lstat's Stat_t; the stored name is that user's; the success return requires the result variable to be 0, and 0 is assigned only in that region")
	fn := c.needFn(rule, "security", c18Server)
	user := c.needField(rule, "security", "SecurityNegotiation", "User")
	lstat := c.c18ExtFn(rule, "os", "Lstat")
	lookup := c.c18ExtFn(rule, "os/user", "LookupId")
	putStr := c.needFn(rule, "message", "(*Message).PutString")
	uname := c.needField(rule, "os/user", "User", "Username")
	if fn == nil || user == nil || lstat == nil || lookup == nil || putStr == nil || uname == nil {
		return
	}
	name := fnName(fn)
	var stores []*ssa.Store
	for _, g := range withClosures(fn) {
		allInstrs(g, func(_ *ssa.BasicBlock, _ int, in ssa.Instruction) {
			if st, ok := in.(*ssa.Store); ok {
				if fa, ok := st.Addr.(*ssa.FieldAddr); ok && fieldOfAddr(fa) == user {
					stores = append(stores, st)
				}
			}
		})
	}
	c.MinCount(rule, "stores to negotiation.User", len(stores), 1)
	// the path sent to the client
	var sent []ssa.Value
	for _, cs := range callsIn(fn, putStr.Object()) {
		sent = append(sent, cs.Common().Args[len(cs.Common().Args)-1])
	}
	// Lstat on that path
	var lsCalls []ssa.CallInstruction
	for _, cs := range callsIn(fn, lstat) {
		for _, s := range sent {
			if cs.Common().Args[0] == s {
				lsCalls = append(lsCalls, cs)
			}
		}
	}
	if len(lsCalls) == 0 {
		c.Violate(rule, name+"#lstat", "no os.Lstat on the path string that was sent to the client (os.Stat would follow a symlink)", fn.Pos())
		return
	}
	// groups of edges that must all be passed
	type group struct {
		label, what string
		edges       []Edge
	}
	var groups []group
	var lsOK []Edge
	infos := map[ssa.Value]bool{}
	for _, cs := range lsCalls {
		s, _, _ := callErrEdges(fn, cs.Value())
		lsOK = append(lsOK, s...)
		infos[extractN(cs.Value(), 0)] = true
	}
	groups = append(groups, group{"lstat-ok", "os.Lstat(path) == nil", lsOK})
	// mode := info.Mode()
	isMode := func(x ssa.Value) bool {
		call, ok := x.(*ssa.Call)
		return ok && call.Call.IsInvoke() && call.Call.Method.Name() == "Mode" && infos[call.Call.Value]
	}
	var isDirT, permEq, symEq, nl1, nl2, lookOK []Edge
	statOf := func(x ssa.Value) bool { // x is the *syscall.Stat_t of info.Sys()
		for _, o := range c18Origins(x) {
			ex, ok := o.(*ssa.Extract)
			if !ok || ex.Index != 0 {
				return false
			}
			ta, ok := ex.Tuple.(*ssa.TypeAssert)
			if !ok {
				return false
			}
			call, ok := ta.X.(*ssa.Call)
			if !ok || !call.Call.IsInvoke() || call.Call.Method.Name() != "Sys" || !infos[call.Call.Value] {
				return false
			}
		}
		return true
	}
	statField := func(x ssa.Value, field string) bool {
		base, f, ok := fieldRead(x)
		return ok && f.Name() == field && f.Pkg() != nil && f.Pkg().Path() == "syscall" && statOf(base)
	}
	allInstrs(fn, func(_ *ssa.BasicBlock, _ int, in ssa.Instruction) {
		call, ok := in.(*ssa.Call)
		if !ok {
			return
		}
		pkg, nm := c18CalleePkg(call)
		if pkg == "io/fs" && nm == "IsDir" && len(call.Call.Args) == 1 && isMode(call.Call.Args[0]) {
			t, _ := boolEdges(fn, call)
			isDirT = append(isDirT, t...)
		}
	})
	groups = append(groups, group{"is-dir", "Mode().IsDir()", isDirT})
	symlinkBit := int64(1) << 27 // fs.ModeSymlink
	if k, ok := c.PkgTypes("io/fs").Scope().Lookup("ModeSymlink").(*types.Const); ok {
		if v, isC := c18ConstIntVal(k); isC {
			symlinkBit = v
		}
	}
	symEq, _ = c18CmpEdges(fn, func(x, y ssa.Value) bool {
		bo, ok := x.(*ssa.BinOp)
		z, isZ := constInt(y)
		if !ok || bo.Op != token.AND || !isZ || z != 0 {
			return false
		}
		m, isC := constInt(bo.Y)
		other := bo.X
		if !isC {
			m, isC = constInt(bo.X)
			other = bo.Y
		}
		return isC && m == symlinkBit && isMode(other)
	})
	groups = append(groups, group{"not-symlink", "Mode()&ModeSymlink == 0", symEq})
	permEq, _ = c18CmpEdges(fn, func(x, y ssa.Value) bool {
		call, ok := x.(*ssa.Call)
		m, isC := constInt(y)
		if !ok || !isC || m != 0o700 {
			return false
		}
		pkg, nm := c18CalleePkg(call)
		return pkg == "io/fs" && nm == "Perm" && len(call.Call.Args) == 1 && isMode(call.Call.Args[0])
	})
	groups = append(groups, group{"perm-0700", "Mode().Perm() == 0700", permEq})
	nl1, _ = c18CmpEdges(fn, func(x, y ssa.Value) bool { n, isC := constInt(y); return isC && n == 1 && statField(x, "Nlink") })
	nl2, _ = c18CmpEdges(fn, func(x, y ssa.Value) bool { n, isC := constInt(y); return isC && n == 2 && statField(x, "Nlink") })
	// any other equality on Nlink widens the accepted set
	wide, _ := c18CmpEdges(fn, func(x, y ssa.Value) bool { _, isC := constInt(y); return isC && statField(x, "Nlink") })
	nlOnly := len(wide) == len(nl1)+len(nl2)
	groups = append(groups, group{"nlink", "Nlink == 1 || Nlink == 2", append(append([]Edge{}, nl1...), nl2...)})
	users := map[ssa.Value]bool{}
	for _, cs := range callsIn(fn, lookup) {
		uidDep := mustDepend(fn, cs.Common().Args[0], func(v ssa.Value) bool { return statField(v, "Uid") })
		if !uidDep {
			continue
		}
		s, _, _ := callErrEdges(fn, cs.Value())
		lookOK = append(lookOK, s...)
		users[extractN(cs.Value(), 0)] = true
	}
	groups = append(groups, group{"uid-lookup", "user.LookupId(stat.Uid) == nil", lookOK})
	var egroups [][]Edge
	for _, g := range groups {
		egroups = append(egroups, g.edges)
	}
	for i, st := range stores {
		construct := fmt.Sprintf("%s#User-store%d", name, i+1)
		if st.Parent() != fn {
			c.Undecided(rule, construct, "negotiation.User is assigned inside a closure", st.Pos())
			continue
		}
		okAll := true
		for _, g := range groups {
			if len(g.edges) == 0 {
				c.Violate(rule, construct+":"+g.label, "no test "+g.what+" on the object at the path the server generated", st.Pos())
				okAll = false
				continue
			}
			if p := findPath(entryPoint(fn), Target{Instr: st}, newCuts().AddEdges(g.edges...)); p != nil {
				c.Violate(rule, construct+":"+g.label, "negotiation.User is assigned on a path that does not pass "+g.what, st.Pos(), c.describePath(p)...)
				okAll = false
			} else {
				c.Ok(rule, construct+":"+g.label, "the identity is recorded only after "+g.what, st.Pos())
			}
		}
		_ = okAll
		// the recorded name is the looked-up user's
		base, f, ok := fieldRead(st.Val)
		c.Check(ok && f == uname && users[base], rule, construct+":value", "the recorded name is Username of the user looked up from the directory's uid", "the recorded name is not the Username of user.LookupId(stat.Uid)", st.Pos())
	}
	c.Check(nlOnly, rule, name+"#nlink-set", "link count is compared with 1 and 2 only", "the link count is compared with a value other than 1 or 2", fn.Pos())
	// success requires result == 0, and 0 is assigned only in the verified region
	succ := c.successTargets(fn)
	var zeroE []Edge
	var resVar ssa.Value
	for _, b := range fn.Blocks {
		ifi := blockIf(b)
		if ifi == nil {
			continue
		}
		a := condAtom(ifi.Cond)
		if a.Op != token.EQL && a.Op != token.NEQ {
			continue
		}
		z, isZ := constInt(a.Y)
		if _, isPhi := a.X.(*ssa.Phi); !isPhi || !isZ || z != 0 {
			continue
		}
		leaves := c18PhiLeaves(a.X)
		allConst := true
		for _, l := range leaves {
			if _, isC := constInt(l.V); !isC {
				allConst = false
			}
		}
		if !allConst {
			continue
		}
		e, _ := c18CmpEdges(fn, func(x, y ssa.Value) bool { return x == a.X && y == a.Y })
		// keep only candidates whose zero edge gates every success return
		gates := len(succ) > 0
		for _, t := range succ {
			if findPath(entryPoint(fn), t.Target(), newCuts().AddEdges(e...)) != nil {
				gates = false
			}
		}
		if gates {
			zeroE = append(zeroE, e...)
			resVar = a.X
		}
	}
	if resVar == nil {
		c.Violate(rule, name+"#success-gate", "no test 'result == 0' over a constant-valued result variable gates the success return", fn.Pos())
	} else {
		c.Ok(rule, name+"#success-gate", "the success return is gated by result == 0", fn.Pos())
		okZero, zeros := true, 0
		for _, l := range c18PhiLeaves(resVar) {
			if n, _ := constInt(l.V); n != 0 {
				continue
			}
			zeros++
			if l.From == nil || c18BlockNeeds(fn, l.From, egroups) >= 0 {
				okZero = false
			}
		}
		c.Check(okZero && zeros > 0, rule, name+"#result-zero", "the result is 0 only where every check has passed", "the result variable can be 0 on a path that skipped one of the directory checks", fn.Pos())
		// the integer sent to the client is that variable
		putInt := c.needFn(rule, "message", "(*Message).PutInt")
		sentRes := false
		if putInt != nil {
			for _, cs := range callsIn(fn, putInt.Object()) {
				if cs.Common().Args[len(cs.Common().Args)-1] == resVar {
					sentRes = true
				}
			}
		}
		c.Check(sentRes, rule, name+"#result-sent", "the verdict sent to the client is the gated result variable", "the verdict sent to the client is not the variable that gates the server's own success", fn.Pos())
	}
	c.MinCount(rule, "success returns of the server exchange", len(succ), 1)
}

func c18ConstIntVal(k *types.Const) (int64, bool) {
	if k == nil || k.Val().Kind() != constant.Int {
		return 0, false
	}
	return constant.Int64Val(k.Val())
}
