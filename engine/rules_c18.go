package main

import (
	"fmt"
	"go/constant"
	"go/token"
	"go/types"
	"time"

	"golang.org/x/tools/go/ssa"
)

func init() {
	register("C18", c18Timed("R1", c18r1), c18Timed("R2", c18r2), c18Timed("R3", c18r3), c18Timed("R4", c18r4), c18Timed("R5", c18r5), c18Timed("R6", c18r6))
}

// c18Timed notes the wall time of a rule in the evidence.
func c18Timed(name string, f ruleFn) ruleFn {
	return func(c *Ctx) {
		t0 := time.Now()
		defer func() { c.Note("C18-%s took %.2fs", name, time.Since(t0).Seconds()) }()
		f(c)
	}
}

const c18Client = "(*Authenticator).performFSAuthenticationClient"
const c18Server = "(*Authenticator).performFSAuthenticationServer"

// c18ClientFacts are the anchors of the client exchange shared by R1, R2, R4 and R5.
type c18ClientFacts struct {
	fn        *ssa.Function
	root      *c11Env
	validate  *ssa.Function
	vsite     c11CallSite // the validateFSAuthPath call (in the exchange or a helper of it)
	validated c11Fact     // that call returned a nil error
	leaf      ssa.Value   // result #0 of that call
	openRoot  *types.Func
	mkdir     *types.Func
	remove    *types.Func
	closeFn   *types.Func
}

func c18IsCallTo(f types.Object) func(ssa.CallInstruction) bool {
	return func(call ssa.CallInstruction) bool {
		co := calleeObj(call)
		return co != nil && f != nil && types.Object(co) == f
	}
}

func (c *Ctx) c18ClientAnchors(rule string) *c18ClientFacts {
	f := &c18ClientFacts{}
	f.fn = c.needFn(rule, "security", c18Client)
	f.validate = c.needFn(rule, "security", "validateFSAuthPath")
	f.openRoot = c.c18ExtFn(rule, "os", "OpenRoot")
	f.mkdir = c.c18ExtFn(rule, "os", "Root.Mkdir")
	f.remove = c.c18ExtFn(rule, "os", "Root.Remove")
	f.closeFn = c.c18ExtFn(rule, "os", "Root.Close")
	if f.fn == nil || f.validate == nil || f.openRoot == nil || f.mkdir == nil || f.remove == nil || f.closeFn == nil {
		return nil
	}
	f.root = c11Root(f.fn)
	calls := c11CallsTo(f.root, c18IsCallTo(f.validate.Object()))
	if len(calls) != 1 {
		c.Undecided(rule, fnName(f.fn)+"#validate-call", fmt.Sprintf("expected exactly one validateFSAuthPath call in the client exchange, found %d", len(calls)), f.fn.Pos())
		return nil
	}
	f.vsite = calls[0]
	if c11NilErrCuts(f.vsite.env.fn, f.vsite.call, newCuts(), false) == 0 {
		c.Violate(rule, fnName(f.fn)+"#validate-call", "the error result of validateFSAuthPath is never tested", f.vsite.call.Pos())
		return nil
	}
	vcall := f.vsite.call
	f.validated = c11Fact{errOK: func(call ssa.CallInstruction, _ *c11Env) bool { return call == vcall }}
	f.leaf = extractN(vcall.Value(), 0)
	return f
}

// c18FSSite is a filesystem-touching call of the client exchange: in the exchange itself, in a
// followed helper (env set) or in a closure of the exchange (env nil).
type c18FSSite struct {
	fn      *ssa.Function
	call    ssa.CallInstruction
	env     *c11Env
	closure bool // reached through a closure: no place relative to the validation
}

// c18FSCalls lists the filesystem-touching calls of fn and its closures.
func c18FSCalls(fn *ssa.Function) []CallSite {
	var out []CallSite
	for _, g := range withClosures(fn) {
		allInstrs(g, func(_ *ssa.BasicBlock, _ int, in ssa.Instruction) {
			if call, ok := in.(ssa.CallInstruction); ok && c18IsFSCall(call) {
				out = append(out, CallSite{g, call})
			}
		})
	}
	return out
}

// c18OnCycle: the instruction of body e can execute twice in one run of the root body: it is on a
// cycle of its own body or the call leading to its body is, at some level.
func c18OnCycle(e *c11Env, in ssa.Instruction) []*ssa.BasicBlock {
	for ; e != nil; in, e = e.call, e.parent {
		if _, isDefer := in.(*ssa.Defer); isDefer {
			continue
		}
		if p := findPath(after(in), Target{Instr: in}, nil); p != nil {
			return p
		}
	}
	return nil
}

// C18-R1: validate before any filesystem effect, on the right inputs, through the rooted handle.
func c18r1(c *Ctx) {
	const rule = "C18-R1"
	c.Doc(rule, "performFSAuthenticationClient (with the same-package helpers it calls): every call into os/syscall is dominated by the nil-error edge of validateFSAuthPath(path received from the peer, remote, RemoteAddr() of the live connection); the only such calls are os.OpenRoot on the constant base directory the validator compares against and methods of the *os.Root it returned, whose name arguments are result #0 of the validator; the validator and its helpers touch no filesystem")
	f := c.c18ClientAnchors(rule)
	if f == nil {
		return
	}
	fn := f.fn
	base, okBase := c.c18ConstString(rule, "security", "fsAuthBaseDir")
	args := f.vsite.call.Common().Args
	venv := f.vsite.env
	// provenance of the validator's arguments
	getStr := c.needFn(rule, "message", "(*Message).GetStringWithMaxSize")
	getConn := c.needFn(rule, "stream", "(*Stream).GetConnection")
	if len(args) != 3 || getStr == nil || getConn == nil {
		c.Undecided(rule, fnName(fn)+"#validate-args", "unexpected validateFSAuthPath signature", f.vsite.call.Pos())
		return
	}
	okPath := c.c11All(c11LV{args[0], venv}, func(l c11LV) bool { return c18CallOf(l.V, getStr.Object(), 0) != nil })
	c.Check(okPath, rule, fnName(fn)+"#validate-arg:path", "the validated string is the one received from the peer", "the string handed to validateFSAuthPath is not (only) the path received from the peer", f.vsite.call.Pos())
	okRemote := len(fn.Params) == 4 && c.c11All(c11LV{args[1], venv}, func(l c11LV) bool { return l.V == ssa.Value(fn.Params[3]) && l.E == f.root })
	c.Check(okRemote, rule, fnName(fn)+"#validate-arg:remote", "the mode flag is the function's own", "the remote flag handed to validateFSAuthPath is not the exchange's own mode", f.vsite.call.Pos())
	nAddr := 0
	okAddr := c.c11All(c11LV{args[2], venv}, func(l c11LV) bool {
		if isNilConst(l.V) {
			return true // no connection: verifyFSPathEndpoint refuses a nil address (R3)
		}
		call, isCall := l.V.(*ssa.Call)
		if !isCall || !call.Call.IsInvoke() || call.Call.Method.Name() != "RemoteAddr" {
			return false
		}
		if !c.c11All(c11LV{call.Call.Value, l.E}, func(m c11LV) bool { return c18CallOf(m.V, getConn.Object(), 0) != nil }) {
			return false
		}
		nAddr++
		return true
	})
	c.Check(okAddr && nAddr > 0, rule, fnName(fn)+"#validate-arg:peerAddr", "the endpoint is RemoteAddr() of the stream's connection", "the address handed to validateFSAuthPath is not RemoteAddr() of the live connection", f.vsite.call.Pos())

	// every filesystem call: of the exchange, of the helpers followed from it, of its closures
	var sites []c18FSSite
	covered := map[*ssa.Function]bool{}
	var collect func(e *c11Env, placed bool)
	collect = func(e *c11Env, placed bool) {
		for _, b := range c11Bodies(e) {
			covered[b.fn] = true
			b := b
			allInstrs(b.fn, func(_ *ssa.BasicBlock, _ int, in ssa.Instruction) {
				if call, ok := in.(ssa.CallInstruction); ok && c18IsFSCall(call) {
					sites = append(sites, c18FSSite{fn: b.fn, call: call, env: b, closure: !placed})
				}
			})
			// closures created in the body (deferred clean-up): their place on the paths of the
			// exchange is not known, their values are
			for _, g := range b.fn.AnonFuncs {
				collect(&c11Env{fn: g, parent: b, depth: b.depth}, false)
			}
		}
	}
	collect(f.root, true)
	vq := c.c11NewQuery(f.validated)
	isRoot := func(x c11LV) bool { // a root opened by os.OpenRoot (or nil: no effect)
		n := 0
		ok := c.c11All(x, func(l c11LV) bool {
			if isNilConst(l.V) {
				return true
			}
			if c18CallOf(l.V, f.openRoot, 0) != nil {
				n++
				return true
			}
			return false
		})
		return ok && n > 0
	}
	isName := func(x c11LV) bool { // result #0 of the validator (or "": refused by os.Root)
		n := 0
		ok := c.c11All(x, func(l c11LV) bool {
			if s, isC := constString(l.V); isC && s == "" {
				return true
			}
			if l.V == f.leaf && f.leaf != nil {
				n++
				return true
			}
			return false
		})
		return ok && n > 0
	}
	n := 0
	ord := map[string]int{}
	seenSite := map[ssa.CallInstruction]bool{}
	for _, cs := range sites {
		o := calleeObj(cs.call)
		_, name := c18CalleePkg(cs.call)
		construct := fmt.Sprintf("%s#fs-call:%s", fnName(cs.fn), o.FullName())
		if !seenSite[cs.call] {
			n++
			ord[construct]++
		}
		seenSite[cs.call] = true
		if k := ord[construct]; k > 1 {
			construct += fmt.Sprintf("#%d", k)
		}
		cargs := cs.call.Common().Args
		recv := o.Type().(*types.Signature).Recv()
		isRootMethod := recv != nil && c18IsRootPtr(recv.Type())
		env := cs.env
		// Methods of *os.Root are tied to the validated region through their receiver (a root that
		// was opened there, or nil = no effect); everything else must itself be dominated.
		if !isRootMethod {
			if cs.closure {
				c.Undecided(rule, construct, "filesystem call inside a closure: cannot place it relative to the validation", cs.call.Pos())
				continue
			}
			if ok, p := vq.guards(nil, cs.env, cs.call); !ok {
				c.Violate(rule, construct, "filesystem call reachable without a successful validateFSAuthPath", cs.call.Pos(), c.describePath(p)...)
				continue
			}
		}
		switch {
		case types.Object(o) == types.Object(f.openRoot):
			c.Check(okBase && c.c11LVConstString(c11LV{cargs[0], env}, base), rule, construct, "the root is opened on the constant base directory", "os.OpenRoot is not called on the fsAuthBaseDir constant the validator compares against", cs.call.Pos())
		case isRootMethod:
			good := isRoot(c11LV{cargs[0], env})
			why := "receiver is not the root opened on the base directory"
			for i, a := range cargs[1:] {
				if bt, ok := a.Type().Underlying().(*types.Basic); ok && bt.Kind() == types.String {
					if !isName(c11LV{a, env}) {
						good = false
						why = fmt.Sprintf("argument %d of %s is not the name returned by validateFSAuthPath", i+1, name)
					}
				}
			}
			c.Check(good, rule, construct, "operates on the validated name inside the root opened on the base directory", why, cs.call.Pos())
		default:
			c.Undecided(rule, construct, "filesystem call outside the rooted handle: cannot relate its path to the validated name", cs.call.Pos())
		}
	}
	c.MinCount(rule, "filesystem calls in the client exchange", n, 1)
	// the validator and the same-package helpers it reaches have no filesystem calls
	clean, helpers := true, 0
	for g := range c.reachableFns([]*ssa.Function{f.validate}, false) {
		if fnPkg(g) != fnPkg(fn) {
			continue
		}
		helpers++
		for _, cs := range c18FSCalls(g) {
			clean = false
			c.Violate(rule, fnName(g)+"#fs-call:"+calleeObj(cs.Call).FullName(), "the validator touches the filesystem before the path is accepted", cs.Call.Pos())
		}
	}
	if clean {
		c.Ok(rule, "validator#no-fs-call", fmt.Sprintf("validateFSAuthPath and its %d helper(s) make no os/syscall call", helpers-1), f.validate.Pos())
	}
	// other same-package functions the exchange reaches (not followed above) must not touch the filesystem
	for g := range c.reachableFns([]*ssa.Function{fn}, false) {
		if fnPkg(g) != fnPkg(fn) || topFn(g) == fn || covered[g] {
			continue
		}
		for _, cs := range c18FSCalls(g) {
			c.Violate(rule, fnName(g)+"#fs-call:"+calleeObj(cs.Call).FullName(), "a helper of the client exchange touches the filesystem outside the validated region", cs.Call.Pos())
		}
	}
	c.MinCount(rule, "validator functions inspected", helpers, 1)
}

func c18IsRootPtr(t types.Type) bool {
	p, ok := t.(*types.Pointer)
	if !ok {
		return false
	}
	n, ok := p.Elem().(*types.Named)
	return ok && n.Obj().Pkg() != nil && n.Obj().Pkg().Path() == "os" && n.Obj().Name() == "Root"
}

// C18-R2: at most one directory.
func c18r2(c *Ctx) {
	const rule = "C18-R2"
	c.Doc(rule, "performFSAuthenticationClient (with closures and same-package callees) contains exactly one call that can create a filesystem object, (*os.Root).Mkdir, and it is not on a cycle of the control-flow graph (nor is a call leading to it)")
	f := c.c18ClientAnchors(rule)
	if f == nil {
		return
	}
	fn := f.fn
	mks := c11CallsTo(f.root, c18IsCallTo(f.mkdir))
	n := 0
	for g := range c.reachableFns([]*ssa.Function{fn}, false) {
		if fnPkg(g) != fnPkg(fn) {
			continue
		}
		for _, cs := range c18FSCalls(g) {
			_, name := c18CalleePkg(cs.Call)
			if !c18CreatorNames[name] {
				continue
			}
			n++
			if len(mks) == 1 && cs.Call == mks[0].call {
				continue
			}
			c.Violate(rule, fnName(cs.Fn)+"#creates:"+calleeObj(cs.Call).FullName(), "a second call that can create a filesystem object in the client exchange", cs.Call.Pos())
		}
	}
	if len(mks) != 1 {
		if len(mks) == 0 {
			c.Violate(rule, fnName(fn)+"#Mkdir", "no (*os.Root).Mkdir call in the client exchange", fn.Pos())
		} else {
			c.Violate(rule, fnName(fn)+"#Mkdir", fmt.Sprintf("(*os.Root).Mkdir can be reached through %d call sites of the client exchange", len(mks)), mks[1].call.Pos())
		}
	} else {
		mk := mks[0]
		_, isDefer := mk.call.(*ssa.Defer)
		loop := c18OnCycle(mk.env, mk.call)
		c.Check(loop == nil && !isDefer, rule, fnName(fn)+"#Mkdir-once", "Mkdir is executed at most once per exchange", "Mkdir can be executed more than once in one exchange (it is on a cycle)", mk.call.Pos(), c.describePath(loop)...)
	}
	c.MinCount(rule, "creating calls", n, 1)
}

// C18-R3: composition of the validator.
func c18r3(c *Ctx) {
	const rule = "C18-R3"
	c.Doc(rule, "validateFSAuthPath (with the same-package helpers it calls): every success return passes non-empty, filepath.IsAbs, Clean(p)==p, Dir(p)==fsAuthBaseDir, and then either verifyFSPathEndpoint==nil on the fields fsAddrLeaf extracted (ok edge) or MatchString of a package-level pattern that is ^…$-anchored as a whole and admits no '/' or NUL; the returned name is filepath.Base(p). fsAddrLeaf says ok only after prefix, three fields, ParseIP and the suffix pattern; verifyFSPathEndpoint succeeds only after non-nil address, equal port and IP.Equal")
	v := c.needFn(rule, "security", "validateFSAuthPath")
	fal := c.needFn(rule, "security", "fsAddrLeaf")
	vep := c.needFn(rule, "security", "verifyFSPathEndpoint")
	isAbs := c.c18ExtFn(rule, "path/filepath", "IsAbs")
	clean := c.c18ExtFn(rule, "path/filepath", "Clean")
	dir := c.c18ExtFn(rule, "path/filepath", "Dir")
	baseFn := c.c18ExtFn(rule, "path/filepath", "Base")
	match := c.c18ExtFn(rule, "regexp", "Regexp.MatchString")
	base, okBase := c.c18ConstString(rule, "security", "fsAuthBaseDir")
	if v == nil || fal == nil || vep == nil || isAbs == nil || clean == nil || dir == nil || baseFn == nil || match == nil || !okBase {
		return
	}
	if len(v.Params) != 3 {
		c.Undecided(rule, fnName(v)+"#signature", "unexpected validateFSAuthPath signature", v.Pos())
		return
	}
	root := c11Root(v)
	par := func(i int) func(c11LV) bool {
		return func(x c11LV) bool {
			return c.c11All(x, func(l c11LV) bool { return l.V == ssa.Value(v.Params[i]) && l.E == root })
		}
	}
	isP0 := par(0)
	callOn := func(x c11LV, f *types.Func, arg func(c11LV) bool) bool {
		return c.c11All(x, func(l c11LV) bool {
			call := c18CallOf(l.V, f, 0)
			return call != nil && len(call.Common().Args) == 1 && arg(c11LV{call.Common().Args[0], l.E})
		})
	}
	isLeaf := func(x c11LV) bool { return callOn(x, baseFn, isP0) }
	succ := c18RetTargets(c.successTargets(v))
	name := fnName(v)
	// 1 non-empty
	c.c11Pass(rule, name+"#non-empty", root, nil, succ, c11CmpFact(false, func(x, y c11LV) bool { return isP0(x) && c.c11LVConstString(y, "") }), nil, "the path != \"\" edge", v.Pos())
	// 2 absolute
	abs := c11Fact{boolR: func(call ssa.CallInstruction, e *c11Env) (int, bool, bool) {
		co := calleeObj(call)
		ok := co != nil && types.Object(co) == types.Object(isAbs) && isP0(c11LV{call.Common().Args[0], e})
		return 0, true, ok
	}}
	c.c11Pass(rule, name+"#absolute", root, nil, succ, abs, nil, "the true edge of filepath.IsAbs(path)", v.Pos())
	// 3 canonical
	c.c11Pass(rule, name+"#canonical", root, nil, succ, c11CmpFact(true, func(x, y c11LV) bool { return callOn(x, clean, isP0) && isP0(y) }), nil, "the filepath.Clean(path) == path edge", v.Pos())
	// 4 parent is the base
	c.c11Pass(rule, name+"#parent-is-base", root, nil, succ, c11CmpFact(true, func(x, y c11LV) bool { return callOn(x, dir, isP0) && c.c11LVConstString(y, base) }), nil, "the filepath.Dir(path) == fsAuthBaseDir edge", v.Pos())
	// 5 leaf form: endpoint-checked address form, or an anchored pattern
	patterns := map[*ssa.Global]bool{}
	isPattern := func(x c11LV, record bool) bool {
		return c.c11All(x, func(l c11LV) bool {
			ld, ok := l.V.(*ssa.UnOp)
			if !ok || ld.Op != token.MUL {
				return false
			}
			g, isG := ld.X.(*ssa.Global)
			if isG && record {
				patterns[g] = true
			}
			return isG
		})
	}
	endpoint := c11Fact{errOK: func(call ssa.CallInstruction, e *c11Env) bool {
		co := calleeObj(call)
		if co == nil || types.Object(co) != vep.Object() || len(call.Common().Args) != 3 {
			return false
		}
		a := call.Common().Args
		// arguments: ip and port as extracted by fsAddrLeaf from the leaf, on its ok edge; the caller's address
		ipLV, okIP := c.c11One(c11LV{a[0], e})
		portLV, okPort := c.c11One(c11LV{a[1], e})
		if !okIP || !okPort {
			return false
		}
		ipCall := c18CallOf(ipLV.V, fal.Object(), 0)
		portCall := c18CallOf(portLV.V, fal.Object(), 1)
		if ipCall == nil || ipCall != portCall || ipLV.E != portLV.E || !par(2)(c11LV{a[2], e}) {
			return false
		}
		fa := ipCall.Common().Args
		if !isLeaf(c11LV{fa[0], ipLV.E}) || !par(1)(c11LV{fa[1], ipLV.E}) {
			return false
		}
		okd := c11Fact{boolR: func(cl ssa.CallInstruction, ce *c11Env) (int, bool, bool) {
			return 2, true, cl == ipCall && ce == ipLV.E
		}}
		guarded, _ := c.c11NewQuery(okd).guards(nil, e, call)
		return guarded
	}}
	pattern := c11Fact{boolR: func(call ssa.CallInstruction, e *c11Env) (int, bool, bool) {
		co := calleeObj(call)
		if co == nil || types.Object(co) != types.Object(match) || len(call.Common().Args) != 2 {
			return 0, false, false
		}
		a := call.Common().Args
		return 0, true, isLeaf(c11LV{a[1], e}) && isPattern(c11LV{a[0], e}, false)
	}}
	c.c11Pass(rule, name+"#leaf-form", root, nil, succ, c11AnyFact(endpoint, pattern), nil, "verifyFSPathEndpoint == nil (on the fields fsAddrLeaf(leaf, remote) reported ok, and the connection address) or a match of the leaf against a package-level pattern", v.Pos())
	for _, cs := range c11CallsTo(root, func(call ssa.CallInstruction) bool {
		co := calleeObj(call)
		return co != nil && types.Object(co) == types.Object(match)
	}) {
		a := cs.call.Common().Args
		if len(a) == 2 && isLeaf(c11LV{a[1], cs.env}) {
			isPattern(c11LV{a[0], cs.env}, true)
		}
	}
	// 6 returned name
	okRet := len(succ) > 0
	for _, t := range c.successTargets(v) {
		if !isLeaf(c11LV{t.Ret.Results[0], root}) {
			okRet = false
		}
	}
	c.Check(okRet, rule, name+"#result", "the returned name is filepath.Base(path)", "a success return yields something other than filepath.Base(path)", v.Pos())
	c.MinCount(rule, "success returns of validateFSAuthPath", len(succ), 1)

	// fsAddrLeaf
	c.c18FsAddrLeaf(rule, fal, match, patterns)
	// patterns
	np := 0
	for g := range patterns {
		np++
		pat, ok, writers := c.c18GlobalRegexp(g)
		construct := "pattern:" + g.Name()
		if !ok || writers != 1 {
			c.Undecided(rule, construct, fmt.Sprintf("%s is not assigned exactly once from regexp.MustCompile(<constant>) (%d writer(s))", g.Name(), writers), g.Pos())
			continue
		}
		probs := c18LeafPatternProblems(pat)
		if len(probs) == 0 {
			c.Ok(rule, construct, "pattern "+pat+" is anchored as a whole and admits no '/' or NUL", g.Pos())
		} else {
			c.Violate(rule, construct, "pattern "+pat+": "+probs[0], g.Pos(), probs...)
		}
	}
	c.MinCount(rule, "leaf patterns", np, 1)
	// verifyFSPathEndpoint
	c.c18Endpoint(rule, vep)
}

// c18OkReturns: the returns of fn whose last (boolean) result can be true, split by predecessor when
// that result is a phi of the return block.
func c18OkReturns(fn *ssa.Function) []Target {
	var out []Target
	for _, r := range c18AllReturns(fn) {
		last := r.Results[len(r.Results)-1]
		if phi, ok := last.(*ssa.Phi); ok && phi.Block() == r.Block() {
			for i, e := range phi.Edges {
				if b, isC := constBool(e); isC && !b {
					continue
				}
				out = append(out, Target{Instr: r, Pred: r.Block().Preds[i]})
			}
			continue
		}
		if b, isC := constBool(last); isC && !b {
			continue
		}
		out = append(out, Target{Instr: r})
	}
	return out
}

// c18FsAddrLeaf: the ok=true returns of fsAddrLeaf.
func (c *Ctx) c18FsAddrLeaf(rule string, fal *ssa.Function, match *types.Func, patterns map[*ssa.Global]bool) {
	name := fnName(fal)
	cut := c.c18ExtFn(rule, "strings", "CutPrefix")
	split := c.c18ExtFn(rule, "strings", "Split")
	parseIP := c.c18ExtFn(rule, "net", "ParseIP")
	if cut == nil || split == nil || parseIP == nil || len(fal.Params) != 2 {
		return
	}
	root := c11Root(fal)
	isLeafPar := func(x c11LV) bool {
		return c.c11All(x, func(l c11LV) bool { return l.V == ssa.Value(fal.Params[0]) && l.E == root })
	}
	okRets := c18OkReturns(fal)
	// fields = strings.Split(rest, "_") where rest is the remainder CutPrefix(leaf, prefix) reported
	isFields := func(x c11LV) bool {
		return c.c11All(x, func(l c11LV) bool {
			sp := c18CallOf(l.V, split, 0)
			if sp == nil {
				return false
			}
			return c.c11All(c11LV{sp.Common().Args[0], l.E}, func(m c11LV) bool {
				cp := c18CallOf(m.V, cut, 0)
				return cp != nil && isLeafPar(c11LV{cp.Common().Args[0], m.E})
			})
		})
	}
	field := func(x c11LV, i int64) bool {
		return c.c11All(x, func(l c11LV) bool {
			ld, ok := l.V.(*ssa.UnOp)
			if !ok || ld.Op != token.MUL {
				return false
			}
			ia, ok := ld.X.(*ssa.IndexAddr)
			if !ok {
				return false
			}
			idx, isC := constInt(ia.Index)
			return isC && idx == i && isFields(c11LV{ia.X, l.E})
		})
	}
	// prefix found
	found := c11Fact{boolR: func(call ssa.CallInstruction, e *c11Env) (int, bool, bool) {
		co := calleeObj(call)
		if co == nil || types.Object(co) != types.Object(cut) || !isLeafPar(c11LV{call.Common().Args[0], e}) {
			return 0, false, false
		}
		good := c.c11All(c11LV{call.Common().Args[1], e}, func(l c11LV) bool {
			s, isC := constString(l.V)
			return isC && len(s) >= 3 && s[:3] == "FS_"
		})
		return 1, true, good
	}}
	c.c11Pass(rule, name+"#prefix", root, nil, okRets, found, nil, "the found edge of strings.CutPrefix(leaf, \"FS_…\")", fal.Pos())
	// exactly three fields
	three := c11CmpFact(true, func(x, y c11LV) bool {
		if !c.c11LVConstInt(y, 3) {
			return false
		}
		return c.c11All(x, func(l c11LV) bool {
			call, ok := l.V.(*ssa.Call)
			if !ok {
				return false
			}
			b, isB := call.Call.Value.(*ssa.Builtin)
			return isB && b.Name() == "len" && isFields(c11LV{call.Call.Args[0], l.E})
		})
	})
	c.c11Pass(rule, name+"#three-fields", root, nil, okRets, three, nil, "the len(fields) == 3 edge", fal.Pos())
	// first field is an IP address
	isIP := c11CmpFact(false, func(x, y c11LV) bool {
		if !c.c11LVNil(y) {
			return false
		}
		return c.c11All(x, func(l c11LV) bool {
			call := c18CallOf(l.V, parseIP, 0)
			return call != nil && field(c11LV{call.Common().Args[0], l.E}, 0)
		})
	})
	c.c11Pass(rule, name+"#ip-field", root, nil, okRets, isIP, nil, "the net.ParseIP(fields[0]) != nil edge", fal.Pos())
	// suffix pattern
	sfx := c11Fact{boolR: func(call ssa.CallInstruction, e *c11Env) (int, bool, bool) {
		co := calleeObj(call)
		if co == nil || types.Object(co) != types.Object(match) || len(call.Common().Args) != 2 {
			return 0, false, false
		}
		a := call.Common().Args
		if !field(c11LV{a[1], e}, 2) {
			return 0, false, false
		}
		isG := c.c11All(c11LV{a[0], e}, func(l c11LV) bool {
			ld, ok := l.V.(*ssa.UnOp)
			if !ok || ld.Op != token.MUL {
				return false
			}
			g, ok := ld.X.(*ssa.Global)
			if ok {
				patterns[g] = true
			}
			return ok
		})
		return 0, true, isG
	}}
	c.c11Pass(rule, name+"#suffix-field", root, nil, okRets, sfx, nil, "a match of the suffix pattern on fields[2]", fal.Pos())
	// results are fields 0 and 1
	okRes := len(okRets) > 0
	for _, t := range okRets {
		r := t.Instr.(*ssa.Return)
		if len(r.Results) != 3 || !field(c11LV{r.Results[0], root}, 0) || !field(c11LV{r.Results[1], root}, 1) {
			okRes = false
		}
	}
	c.Check(okRes, rule, name+"#results", "ip and port are fields 0 and 1 of the split leaf", "fsAddrLeaf does not return fields[0], fields[1] of the leaf it checked", fal.Pos())
	c.MinCount(rule, "ok returns of fsAddrLeaf", len(okRets), 1)
}

// c18Endpoint: success of verifyFSPathEndpoint.
func (c *Ctx) c18Endpoint(rule string, vep *ssa.Function) {
	name := fnName(vep)
	shp := c.c18ExtFn(rule, "net", "SplitHostPort")
	parseIP := c.c18ExtFn(rule, "net", "ParseIP")
	ipEq := c.c18ExtFn(rule, "net", "IP.Equal")
	if shp == nil || parseIP == nil || ipEq == nil || len(vep.Params) != 3 {
		return
	}
	root := c11Root(vep)
	par := func(i int) func(c11LV) bool {
		return func(x c11LV) bool {
			return c.c11All(x, func(l c11LV) bool { return l.V == ssa.Value(vep.Params[i]) && l.E == root })
		}
	}
	succ := c18RetTargets(c.successTargets(vep))
	isAddr := par(2)
	c.c11Pass(rule, name+"#addr-non-nil", root, nil, succ, c11CmpFact(false, func(x, y c11LV) bool { return isAddr(x) && c.c11LVNil(y) }), nil, "the peerAddr != nil edge", vep.Pos())
	// host/port of the connection address
	isSHP := func(call ssa.CallInstruction, e *c11Env) bool {
		co := calleeObj(call)
		if co == nil || types.Object(co) != types.Object(shp) {
			return false
		}
		return c.c11All(c11LV{call.Common().Args[0], e}, func(l c11LV) bool {
			s, ok := l.V.(*ssa.Call)
			return ok && s.Call.IsInvoke() && s.Call.Method.Name() == "String" && isAddr(c11LV{s.Call.Value, l.E})
		})
	}
	fromAddr := func(x c11LV, idx int) bool {
		return c.c11All(x, func(l c11LV) bool {
			call, i := originCall(l.V)
			return call != nil && i == idx && isSHP(call, l.E)
		})
	}
	c.c11Pass(rule, name+"#addr-parsed", root, nil, succ, c11Fact{errOK: isSHP}, nil, "a nil-error net.SplitHostPort(peerAddr.String())", vep.Pos())
	c.c11Pass(rule, name+"#port-equal", root, nil, succ, c11CmpFact(true, func(x, y c11LV) bool { return par(1)(x) && fromAddr(y, 1) }), nil, "the namePort == connection port edge", vep.Pos())
	ipOf := func(x c11LV, want func(c11LV) bool) bool {
		return c.c11All(x, func(l c11LV) bool {
			call := c18CallOf(l.V, parseIP, 0)
			return call != nil && want(c11LV{call.Common().Args[0], l.E})
		})
	}
	isName := par(0)
	isHost := func(x c11LV) bool { return fromAddr(x, 0) }
	same := c11Fact{boolR: func(call ssa.CallInstruction, e *c11Env) (int, bool, bool) {
		co := calleeObj(call)
		if co == nil || types.Object(co) != types.Object(ipEq) || len(call.Common().Args) != 2 {
			return 0, false, false
		}
		x, y := c11LV{call.Common().Args[0], e}, c11LV{call.Common().Args[1], e}
		return 0, true, (ipOf(x, isName) && ipOf(y, isHost)) || (ipOf(x, isHost) && ipOf(y, isName))
	}}
	c.c11Pass(rule, name+"#ip-equal", root, nil, succ, same, nil, "the true edge of IP.Equal(ParseIP(nameIP), ParseIP(connection host))", vep.Pos())
	c.MinCount(rule, "success returns of verifyFSPathEndpoint", len(succ), 1)
}

// C18-R4: created => removed, defer-aware.
func c18r4(c *Ctx) {
	const rule = "C18-R4"
	c.Doc(rule, "performFSAuthenticationClient: from the nil-error edge of (*os.Root).Mkdir(root, leaf) every path to every Return executes (*os.Root).Remove on that root and that leaf before the root is closed, directly or in a deferred closure registered on the path (closures executed at RunDefers in LIFO order; same-package helpers that reach Mkdir/Remove/Close executed inline; branches on captured variables decided from the values stored on the path)")
	f := c.c18ClientAnchors(rule)
	if f == nil {
		return
	}
	fn := f.fn
	mks := c11CallsTo(f.root, c18IsCallTo(f.mkdir))
	nExits := 0
	done := map[ssa.CallInstruction]bool{}
	for _, mksite := range mks {
		mk := mksite.call
		if done[mk] {
			continue
		}
		done[mk] = true
		if _, isDefer := mk.(*ssa.Defer); isDefer {
			c.Undecided(rule, fnName(fn)+"#Mkdir", "deferred Mkdir is not supported", mk.Pos())
			continue
		}
		succ := newCuts()
		if c11NilErrCuts(mk.Parent(), mk, succ, false) == 0 {
			c.Violate(rule, fnName(fn)+"#Mkdir", "the error of Mkdir is never tested: success cannot be told from failure", mk.Pos())
			continue
		}
		if len(succ.Via) > 0 || len(succ.Instrs) > 0 {
			c.Undecided(rule, fnName(fn)+"#Mkdir", "the error of Mkdir is not branched on directly", mk.Pos())
			continue
		}
		arm := map[Edge]bool{}
		for e := range succ.Edges {
			arm[e] = true
		}
		sim := &c18Sim{remove: f.remove, close: f.closeFn, create: mk, arm: arm, pkg: fnPkg(fn)}
		type res struct {
			guessed     bool
			path        []*ssa.BasicBlock
			closedFirst bool
		}
		bad := map[*ssa.Return]*res{}
		all := map[*ssa.Return]bool{}
		sim.run(fn, fn.Blocks[0], 0, c18State{cells: map[*ssa.Alloc]ssa.Value{}, binds: map[ssa.Value]ssa.Value{}}, map[string]bool{}, nil, func(x c18Exit) {
			if !x.State.armed {
				return
			}
			all[x.Ret] = true
			if !x.State.removed {
				if prev := bad[x.Ret]; prev == nil || (prev.guessed && !x.State.guessed) {
					bad[x.Ret] = &res{guessed: x.State.guessed, path: x.Path, closedFirst: x.State.closed}
				}
			}
		})
		if sim.overflow {
			c.Undecided(rule, fnName(fn)+"#created=>removed", "path enumeration exceeded its budget", mk.Pos())
			continue
		}
		for _, r := range c18AllReturns(fn) {
			if !all[r] {
				continue
			}
			nExits++
			construct := fmt.Sprintf("%s#created=>removed@return%d", fnName(fn), retOrdinal(fn, r))
			b := bad[r]
			switch {
			case b == nil:
				c.Ok(rule, construct, "every path from a successful Mkdir to this return removes the directory", r.Pos())
			case b.guessed:
				c.Undecided(rule, construct, "a path from a successful Mkdir to this return may skip the removal: it depends on a branch over a captured variable whose value is not known", r.Pos())
			default:
				msg := "a path from a successful Mkdir reaches this return without root.Remove(leaf): the created directory is left behind"
				if b.closedFirst {
					msg += " (the root is closed on that path, so a later Remove through it cannot work either)"
				}
				c.Violate(rule, construct, msg, r.Pos(), c.describePath(b.path)...)
			}
		}
	}
	c.MinCount(rule, "Mkdir call sites", len(mks), 1)
	c.MinCount(rule, "returns reachable after a successful Mkdir", nExits, 1)
}

// C18-R5: one result integer, 0 only after a successful Mkdir.
func c18r5(c *Ctx) {
	const rule = "C18-R5"
	c.Doc(rule, "performFSAuthenticationClient (with the same-package helpers it calls): there is one PutInt call, not on a cycle; every path from the validateFSAuthPath call to a Return passes it; the integer sent is 0 only when assigned under the nil-error edge of Mkdir (all other assignments are non-zero constants)")
	f := c.c18ClientAnchors(rule)
	putInt := c.needFn(rule, "message", "(*Message).PutInt")
	if f == nil || putInt == nil {
		return
	}
	fn := f.fn
	puts := c11CallsTo(f.root, c18IsCallTo(putInt.Object()))
	inClosures := 0
	for _, g := range withClosures(fn)[1:] {
		inClosures += len(callsIn(g, putInt.Object()))
	}
	if len(puts) != 1 || inClosures > 0 {
		c.Violate(rule, fnName(fn)+"#one-reply", fmt.Sprintf("expected exactly one PutInt in the client exchange, found %d", len(puts)+inClosures), fn.Pos())
		c.MinCount(rule, "PutInt call sites", len(puts)+inClosures, 1)
		return
	}
	put := puts[0]
	loop := c18OnCycle(put.env, put.call)
	c.Check(loop == nil, rule, fnName(fn)+"#one-reply", "the result integer is sent at most once", "the result integer can be sent more than once (PutInt is on a cycle)", put.call.Pos(), c.describePath(loop)...)
	var rets []Target
	for _, r := range c18AllReturns(fn) {
		rets = append(rets, Target{Instr: r})
	}
	start := after(f.vsite.site)
	if f.vsite.site == put.site {
		// both inside the same helper call: the reply follows the validation there or not at all
		start = entryPoint(fn)
	}
	sent := c11Fact{instr: func(in ssa.Instruction, _ *c11Env) bool { return in == ssa.Instruction(put.call) }}
	c.c11Pass(rule, fnName(fn)+"#reply-always", f.root, &start, rets, sent, nil, "the PutInt reply (whatever validateFSAuthPath said)", put.call.Pos())
	// value sent
	created := c.c11NewQuery(c11Fact{errOK: func(call ssa.CallInstruction, _ *c11Env) bool { return c18IsCallTo(f.mkdir)(call) }})
	val := c11LV{put.call.Common().Args[len(put.call.Common().Args)-1], put.env}
	asgs := c.c18ValueSites(val)
	okVal, zero := len(asgs) > 0, 0
	why := ""
	for _, a := range asgs {
		if n, isC := constInt(a.val.V); isC && n != 0 {
			continue
		}
		zero++
		guarded := false
		if a.at != nil && a.env != nil {
			guarded, _ = created.guards(nil, a.env, a.at)
		}
		if !guarded {
			okVal = false
			pos := put.call.Pos()
			if a.at != nil {
				pos = a.at.Pos()
			}
			why = "the result is set to 0 (or a non-constant) at " + c.Pos(pos) + " outside the region dominated by a successful Mkdir"
		}
	}
	c.Check(okVal && zero > 0, rule, fnName(fn)+"#reply-value", "0 is sent only after Mkdir succeeded; all other values are non-zero constants", "success (0) can be reported without a created directory: "+why, put.call.Pos())
	c.MinCount(rule, "assignments of the result integer", len(asgs), 1)
}

// C18-R6: server-side verification dominates the recorded identity.
func c18r6(c *Ctx) {
	const rule = "C18-R6"
	c.Doc(rule, "performFSAuthenticationServer (with the same-package helpers it calls): the store to negotiation.User is dominated by os.Lstat==nil on the path string that was sent to the client, Mode().IsDir(), Mode()&ModeSymlink==0, Perm()==0700, Nlink==1||Nlink==2 and user.LookupId==nil on the Uid of that Lstat's Stat_t; the stored name is that user's; the success return requires the result variable to be 0, and 0 is assigned only in that region")
	fn := c.needFn(rule, "security", c18Server)
	user := c.needField(rule, "security", "SecurityNegotiation", "User")
	lstat := c.c18ExtFn(rule, "os", "Lstat")
	lookup := c.c18ExtFn(rule, "os/user", "LookupId")
	putStr := c.needFn(rule, "message", "(*Message).PutString")
	uname := c.needField(rule, "os/user", "User", "Username")
	if fn == nil || user == nil || lstat == nil || lookup == nil || putStr == nil || uname == nil {
		return
	}
	name := fnName(fn)
	root := c11Root(fn)
	isCall := func(f types.Object) func(ssa.CallInstruction) bool {
		return func(call ssa.CallInstruction) bool {
			co := calleeObj(call)
			return co != nil && types.Object(co) == f
		}
	}
	stores := c11Stores(root, user)
	for _, g := range withClosures(fn)[1:] {
		allInstrs(g, func(_ *ssa.BasicBlock, _ int, in ssa.Instruction) {
			if st, ok := in.(*ssa.Store); ok {
				if fa, ok := st.Addr.(*ssa.FieldAddr); ok && fieldOfAddr(fa) == user {
					stores = append(stores, c11StoreSite{site: st, st: st, val: c11LV{st.Val, &c11Env{fn: g, parent: root}}})
				}
			}
		})
	}
	c.MinCount(rule, "stores to negotiation.User", len(stores), 1)
	// the path sent to the client
	var sent []c11LV
	for _, cs := range c11CallsTo(root, isCall(putStr.Object())) {
		sent = append(sent, c11LV{cs.call.Common().Args[len(cs.call.Common().Args)-1], cs.env})
	}
	// Lstat on that path
	isLstat := func(call ssa.CallInstruction, e *c11Env) bool {
		return isCall(lstat)(call) && c11SameLeaves(c11LV{call.Common().Args[0], e}, sent)
	}
	nLstat := 0
	for _, cs := range c11CallsTo(root, isCall(lstat)) {
		if isLstat(cs.call, cs.env) {
			nLstat++
		}
	}
	if nLstat == 0 {
		c.Violate(rule, name+"#lstat", "no os.Lstat on the path string that was sent to the client (os.Stat would follow a symlink)", fn.Pos())
		return
	}
	// info: result #0 of such an Lstat
	isInfo := func(x c11LV) bool {
		return c.c11All(x, func(l c11LV) bool {
			call, idx := originCall(l.V)
			return call != nil && idx == 0 && isLstat(call, l.E)
		})
	}
	// mode := info.Mode()
	isMode := func(x c11LV) bool {
		return c.c11All(x, func(l c11LV) bool {
			call, ok := l.V.(*ssa.Call)
			return ok && call.Call.IsInvoke() && call.Call.Method.Name() == "Mode" && isInfo(c11LV{call.Call.Value, l.E})
		})
	}
	statOf := func(x c11LV) bool { // x is the *syscall.Stat_t of info.Sys()
		return c.c11All(x, func(l c11LV) bool {
			ex, ok := l.V.(*ssa.Extract)
			var ta *ssa.TypeAssert
			if ok && ex.Index == 0 {
				ta, ok = ex.Tuple.(*ssa.TypeAssert)
			} else {
				ta, ok = l.V.(*ssa.TypeAssert)
			}
			if !ok {
				return false
			}
			return c.c11All(c11LV{ta.X, l.E}, func(m c11LV) bool {
				call, ok := m.V.(*ssa.Call)
				return ok && call.Call.IsInvoke() && call.Call.Method.Name() == "Sys" && isInfo(c11LV{call.Call.Value, m.E})
			})
		})
	}
	statField := func(x c11LV, field string) bool {
		return c.c11All(x, func(l c11LV) bool {
			base, f, ok := fieldRead(l.V)
			return ok && f.Name() == field && f.Pkg() != nil && f.Pkg().Path() == "syscall" && statOf(c11LV{base, l.E})
		})
	}
	modeCall := func(lv c11LV, method string) bool { // fs.FileMode.<method>(mode)
		return c.c11All(lv, func(l c11LV) bool {
			call, ok := l.V.(*ssa.Call)
			if !ok {
				return false
			}
			pkg, nm := c18CalleePkg(call)
			return pkg == "io/fs" && nm == method && len(call.Call.Args) == 1 && isMode(c11LV{call.Call.Args[0], l.E})
		})
	}
	symlinkBit := int64(1) << 27 // fs.ModeSymlink
	if k, ok := c.PkgTypes("io/fs").Scope().Lookup("ModeSymlink").(*types.Const); ok {
		if v, isC := c18ConstIntVal(k); isC {
			symlinkBit = v
		}
	}
	// groups of facts that must all hold where the identity is recorded
	type group struct {
		label, what string
		fact        c11Fact
	}
	nlink := func(k int64) c11Fact {
		return c11CmpFact(true, func(x, y c11LV) bool { return c.c11LVConstInt(y, k) && statField(x, "Nlink") })
	}
	isLookup := func(call ssa.CallInstruction, e *c11Env) bool {
		return isCall(lookup)(call) && c.c11DepLV(c11LV{call.Common().Args[0], e}, func(v c11LV) bool {
			return statField(v, "Uid")
		})
	}
	groups := []group{
		{"lstat-ok", "os.Lstat(path) == nil", c11Fact{errOK: isLstat}},
		{"is-dir", "Mode().IsDir()", c11Fact{cond: func(lv c11LV, want bool) bool { return want && modeCall(lv, "IsDir") }}},
		{"not-symlink", "Mode()&ModeSymlink == 0", c11CmpFact(true, func(x, y c11LV) bool {
			if !c.c11LVConstInt(y, 0) {
				return false
			}
			return c.c11All(x, func(l c11LV) bool {
				bo, ok := l.V.(*ssa.BinOp)
				if !ok || bo.Op != token.AND {
					return false
				}
				bx, by := c11LV{bo.X, l.E}, c11LV{bo.Y, l.E}
				return (c.c11LVConstInt(by, symlinkBit) && isMode(bx)) || (c.c11LVConstInt(bx, symlinkBit) && isMode(by))
			})
		})},
		{"perm-0700", "Mode().Perm() == 0700", c11CmpFact(true, func(x, y c11LV) bool {
			return c.c11LVConstInt(y, 0o700) && modeCall(x, "Perm")
		})},
		{"nlink", "Nlink == 1 || Nlink == 2", c11AnyFact(nlink(1), nlink(2))},
		{"uid-lookup", "user.LookupId(stat.Uid) == nil", c11Fact{errOK: isLookup}},
	}
	for i, st := range stores {
		construct := fmt.Sprintf("%s#User-store%d", name, i+1)
		if st.env == nil {
			c.Undecided(rule, construct, "negotiation.User is assigned inside a closure", st.st.Pos())
			continue
		}
		for _, g := range groups {
			q := c.c11NewQuery(g.fact)
			n := 0
			for e := st.env; e != nil; e = e.parent {
				n += q.cutsOf(e).n
			}
			if n == 0 {
				c.Violate(rule, construct+":"+g.label, "no test "+g.what+" on the object at the path the server generated", st.st.Pos())
				continue
			}
			if ok, p := q.guards(nil, st.env, st.st); !ok {
				c.Violate(rule, construct+":"+g.label, "negotiation.User is assigned on a path that does not pass "+g.what, st.st.Pos(), c.describePath(p)...)
			} else {
				c.Ok(rule, construct+":"+g.label, "the identity is recorded only after "+g.what, st.st.Pos())
			}
		}
		// the recorded name is the looked-up user's
		okVal := c.c11All(st.val, func(l c11LV) bool {
			base, f, ok := fieldRead(l.V)
			if !ok || f != uname {
				return false
			}
			real := 0
			return c.c11All(c11LV{base, l.E}, func(m c11LV) bool {
				if isNilConst(m.V) {
					return true // reading a field through a nil pointer yields no name at all
				}
				call, idx := originCall(m.V)
				if call != nil && idx == 0 && isLookup(call, m.E) {
					real++
					return true
				}
				return false
			}) && real > 0
		})
		c.Check(okVal, rule, construct+":value", "the recorded name is Username of the user looked up from the directory's uid", "the recorded name is not the Username of user.LookupId(stat.Uid)", st.st.Pos())
	}
	// any other equality on Nlink widens the accepted set
	nlOnly := true
	for _, e := range c11Bodies(root) {
		allInstrs(e.fn, func(_ *ssa.BasicBlock, _ int, in ssa.Instruction) {
			bo, ok := in.(*ssa.BinOp)
			if !ok || (bo.Op != token.EQL && bo.Op != token.NEQ) {
				return
			}
			for _, xy := range [][2]ssa.Value{{bo.X, bo.Y}, {bo.Y, bo.X}} {
				if k, isC := constInt(xy[1]); isC && k != 1 && k != 2 && statField(c11LV{xy[0], e}, "Nlink") {
					nlOnly = false
				}
			}
		})
	}
	c.Check(nlOnly, rule, name+"#nlink-set", "link count is compared with 1 and 2 only", "the link count is compared with a value other than 1 or 2", fn.Pos())
	// success requires result == 0, and 0 is assigned only in the verified region
	succ := c18RetTargets(c.successTargets(fn))
	c.MinCount(rule, "success returns of the server exchange", len(succ), 1)
	var resVar *c11LV
	for _, e := range c11Bodies(root) {
		allInstrs(e.fn, func(_ *ssa.BasicBlock, _ int, in ssa.Instruction) {
			bo, ok := in.(*ssa.BinOp)
			if !ok || (bo.Op != token.EQL && bo.Op != token.NEQ) || resVar != nil {
				return
			}
			for _, xy := range [][2]ssa.Value{{bo.X, bo.Y}, {bo.Y, bo.X}} {
				x, y := c11LV{xy[0], e}, c11LV{xy[1], e}
				if _, isC := constInt(x.V); isC || !c.c11LVConstInt(y, 0) {
					continue
				}
				sites := c.c18ValueSites(x)
				allConst := len(sites) > 1
				for _, s := range sites {
					if _, isC := constInt(s.val.V); !isC {
						allConst = false
					}
				}
				if !allConst {
					continue
				}
				// keep only a candidate whose zero edge gates every success return
				gate := c11CmpFact(true, func(p, q c11LV) bool { return p == x && q.V == y.V })
				ci := c.c11NewQuery(gate).cutsOf(root)
				if ci.n > 0 && c.c11MustPassQuiet(fn, succ, ci.cuts) {
					resVar = &x
				}
			}
		})
	}
	if resVar == nil {
		c.Violate(rule, name+"#success-gate", "no test 'result == 0' over a constant-valued result variable gates the success return", fn.Pos())
		return
	}
	c.Ok(rule, name+"#success-gate", "the success return is gated by result == 0", fn.Pos())
	okZero, zeros := true, 0
	for _, s := range c.c18ValueSites(*resVar) {
		if n, _ := constInt(s.val.V); n != 0 {
			continue
		}
		zeros++
		if s.at == nil {
			okZero = false
			continue
		}
		for _, g := range groups {
			if ok, _ := c.c11NewQuery(g.fact).guards(nil, s.env, s.at); !ok {
				okZero = false
			}
		}
	}
	c.Check(okZero && zeros > 0, rule, name+"#result-zero", "the result is 0 only where every check has passed", "the result variable can be 0 on a path that skipped one of the directory checks", fn.Pos())
	// the integer sent to the client is that variable
	putInt := c.needFn(rule, "message", "(*Message).PutInt")
	sentRes := false
	if putInt != nil {
		for _, cs := range c11CallsTo(root, isCall(putInt.Object())) {
			arg := c11LV{cs.call.Common().Args[len(cs.call.Common().Args)-1], cs.env}
			if c11SameLeaves(arg, []c11LV{*resVar}) && c11SameLeaves(*resVar, []c11LV{arg}) {
				sentRes = true
			}
		}
	}
	c.Check(sentRes, rule, name+"#result-sent", "the verdict sent to the client is the gated result variable", "the verdict sent to the client is not the variable that gates the server's own success", fn.Pos())
}

func c18ConstIntVal(k *types.Const) (int64, bool) {
	if k == nil || k.Val().Kind() != constant.Int {
		return 0, false
	}
	return constant.Int64Val(k.Val())
}
