package main

import (
	"encoding/json"
	"fmt"
	"go/token"
	"os"
	"path/filepath"
	"sort"
	"strings"
	"time"
)

// Status of an obligation.
const (
	StOK        = "discharged"
	StViolated  = "violated"
	StUndecided = "undecided"
	StAnchor    = "anchor-missing"
)

// Obligation is one decided (or undecidable) instance of a rule. It is keyed by
// Rule + Construct (never by line number) so known findings survive unrelated edits.
type Obligation struct {
	Property  string   `json:"property"`
	Rule      string   `json:"rule"`
	Construct string   `json:"construct"`
	Status    string   `json:"status"`
	Pos       string   `json:"pos,omitempty"`
	Msg       string   `json:"msg"`
	Witness   []string `json:"witness,omitempty"`
	Config    string   `json:"config,omitempty"`
}

func (o *Obligation) Key() string { return o.Rule + "|" + o.Construct }

// Report collects everything one property's rules produce in one run.
type Report struct {
	Property string
	Obs      []*Obligation
	Counts   map[string]int // instance counts per rule (for min-count checks)
	Notes    []string
	RuleDocs map[string]string
	ruleSeq  []string
}

// Ctx is what a rule sees.
type Ctx struct {
	*Prog
	R      *Report
	Tier   string
	Config string
}

func (c *Ctx) add(rule, construct, status, msg string, pos token.Pos, witness []string) *Obligation {
	o := &Obligation{Property: c.R.Property, Rule: rule, Construct: construct, Status: status,
		Msg: msg, Pos: c.Pos(pos), Witness: witness, Config: c.Config}
	c.R.Obs = append(c.R.Obs, o)
	c.R.Counts[rule]++
	return o
}

// Doc registers the one-line description of a rule (goes to the evidence file).
func (c *Ctx) Doc(rule, doc string) {
	if _, ok := c.R.RuleDocs[rule]; !ok {
		c.R.ruleSeq = append(c.R.ruleSeq, rule)
	}
	c.R.RuleDocs[rule] = doc
}

func (c *Ctx) Ok(rule, construct, msg string, pos token.Pos) {
	c.add(rule, construct, StOK, msg, pos, nil)
}
func (c *Ctx) Violate(rule, construct, msg string, pos token.Pos, witness ...string) {
	c.add(rule, construct, StViolated, msg, pos, witness)
}
func (c *Ctx) Undecided(rule, construct, msg string, pos token.Pos) {
	c.add(rule, construct, StUndecided, msg, pos, nil)
}
func (c *Ctx) AnchorMissing(rule, what string) {
	c.add(rule, "anchor:"+what, StAnchor, "anchor does not resolve: "+what, token.NoPos, nil)
}

// Check records ok/violated depending on cond.
func (c *Ctx) Check(cond bool, rule, construct, okMsg, badMsg string, pos token.Pos, witness ...string) bool {
	if cond {
		c.Ok(rule, construct, okMsg, pos)
	} else {
		c.Violate(rule, construct, badMsg, pos, witness...)
	}
	return cond
}

// MinCount fails the rule if it matched fewer instances than confirmed by hand (no vacuous pass).
func (c *Ctx) MinCount(rule string, what string, got, min int) {
	if got < min {
		c.add(rule, "min-count:"+what, StUndecided,
			fmt.Sprintf("rule matched %d instance(s) of %s, fewer than the %d confirmed by reading: the rule would pass vacuously", got, what, min), token.NoPos, nil)
	} else {
		c.add(rule, "min-count:"+what, StOK, fmt.Sprintf("%d instance(s) of %s (minimum %d)", got, what, min), token.NoPos, nil)
	}
}

func (c *Ctx) Note(format string, a ...any) {
	c.R.Notes = append(c.R.Notes, fmt.Sprintf(format, a...))
}

// ---------------------------------------------------------------------------
// known findings

type KnownFinding struct {
	Property  string `json:"property"`
	Rule      string `json:"rule"`
	Construct string `json:"construct"`
	What      string `json:"what"`
	Status    string `json:"status"` // open | fixed
	Commit    string `json:"commit,omitempty"`
}

type KnownFile struct {
	Findings []KnownFinding `json:"findings"`
	Fixed    []string       `json:"fixed_log,omitempty"`
}

func loadKnown(path string) (*KnownFile, error) {
	b, err := os.ReadFile(path)
	if err != nil {
		if os.IsNotExist(err) {
			return &KnownFile{}, nil
		}
		return nil, err
	}
	var k KnownFile
	if err := json.Unmarshal(b, &k); err != nil {
		return nil, fmt.Errorf("%s: %w", path, err)
	}
	return &k, nil
}

// ---------------------------------------------------------------------------
// evidence + verdict

type ruleEvidence struct {
	Rule        string `json:"rule"`
	Decides     string `json:"decides"`
	Obligations int    `json:"obligations"`
	Discharged  int    `json:"discharged"`
	Violated    int    `json:"violated"`
	Undecided   int    `json:"undecided"`
}

// Finish writes evidence, prints verdict lines and returns the process exit code.
func (r *Report) Finish(verifDir, tier string, seed int, p *Prog, configs []string, known *KnownFile, start time.Time, extra map[string]any) int {
	// de-duplicate identical obligations coming from several configurations
	seen := map[string]*Obligation{}
	var obs []*Obligation
	for _, o := range r.Obs {
		k := o.Key() + "|" + o.Status
		if prev, ok := seen[k]; ok {
			if o.Config != "" && !strings.Contains(prev.Config, o.Config) {
				prev.Config += "," + o.Config
			}
			continue
		}
		seen[k] = o
		obs = append(obs, o)
	}
	// a key that is both discharged under one config and violated under another stays violated (both kept)

	openKF := map[string]KnownFinding{}
	for _, k := range known.Findings {
		if k.Property == r.Property && k.Status == "open" {
			openKF[k.Rule+"|"+k.Construct] = k
		}
	}
	perRule := map[string]*ruleEvidence{}
	for _, rule := range r.ruleSeq {
		perRule[rule] = &ruleEvidence{Rule: rule, Decides: r.RuleDocs[rule]}
	}
	var viol, und []*Obligation
	var knownHit []string
	discharged := 0
	for _, o := range obs {
		re := perRule[o.Rule]
		if re == nil {
			re = &ruleEvidence{Rule: o.Rule, Decides: r.RuleDocs[o.Rule]}
			perRule[o.Rule] = re
			r.ruleSeq = append(r.ruleSeq, o.Rule)
		}
		re.Obligations++
		switch o.Status {
		case StOK:
			re.Discharged++
			discharged++
		case StViolated:
			re.Violated++
			if kf, ok := openKF[o.Key()]; ok {
				knownHit = append(knownHit, fmt.Sprintf("KNOWN-FINDING: property=%s %s [%s %s at %s]", r.Property, kf.What, o.Rule, o.Construct, o.Pos))
			} else {
				viol = append(viol, o)
			}
		default:
			re.Undecided++
			und = append(und, o)
		}
	}
	sort.Strings(knownHit)
	knownHit = uniq(knownHit)
	for _, l := range knownHit {
		fmt.Println(l)
	}

	evDir := filepath.Join(verifDir, "evidence")
	_ = os.MkdirAll(evDir, 0o755)
	violDir := filepath.Join(evDir, r.Property+".violations")
	_ = os.RemoveAll(violDir)
	bad := append(append([]*Obligation{}, viol...), und...)
	exit := 0
	if len(bad) > 0 {
		exit = 1
		_ = os.MkdirAll(violDir, 0o755)
		for i, o := range bad {
			path := filepath.Join(violDir, fmt.Sprintf("%d.json", i+1))
			rec := map[string]any{"kind": o.Status, "obligation": o}
			b, _ := json.MarshalIndent(rec, "", " ")
			_ = os.WriteFile(path, append(b, '\n'), 0o644)
			if o.Status != StViolated {
				fmt.Printf("UNDECIDED: property=%s rule=%s construct=%s at %s: %s\n", r.Property, o.Rule, o.Construct, o.Pos, o.Msg)
			} else {
				fmt.Printf("REPORT: property=%s rule=%s construct=%s at %s: %s\n", r.Property, o.Rule, o.Construct, o.Pos, o.Msg)
				for _, w := range o.Witness {
					fmt.Printf("    %s\n", w)
				}
			}
			fmt.Printf("VIOLATION property=%s replay=%s\n", r.Property, path)
		}
	}

	var rules []*ruleEvidence
	var expl []string
	for _, rule := range r.ruleSeq {
		re := perRule[rule]
		rules = append(rules, re)
		expl = append(expl, fmt.Sprintf("%s: %s", rule, re.Decides))
	}
	var samples []any
	perRuleSample := map[string]int{}
	for _, o := range obs {
		if strings.HasPrefix(o.Construct, "min-count:") {
			continue
		}
		if perRuleSample[o.Rule] < 2 && len(samples) < 24 {
			perRuleSample[o.Rule]++
			samples = append(samples, o)
		}
	}
	cov := map[string]any{
		"explanation": "Static analysis of /repo's current source (go/packages + go/ssa whole-program load, VTA call graph). " +
			"Each rule decides a structural necessary condition of the property on every path / call site / field access it enumerates; " +
			"obligations are keyed by rule+construct. Rules: " + strings.Join(expl, " || "),
		"obligations":        len(obs) - len(knownHit),
		"discharged":         discharged,
		"rules":              rules,
		"samples":            samples,
		"packages":           len(p.Pkgs),
		"functions_analysed": len(p.ModFns),
		"configs":            configs,
		"ignored_files":      p.Ignored,
		"known_findings_hit": knownHit,
		"notes":              r.Notes,
		"checker_cmd":        "bin/check " + r.Property + " " + tier,
		"trusted_base":       []string{"go/types, go/ssa (x/tools v0.50.0)", "Go standard library and third-party modules (classad, jwt, gokrb5) behave as documented"},
	}
	if p.cg != nil {
		cov["callgraph_nodes"] = len(p.cg.Nodes)
	}
	for k, v := range extra {
		cov[k] = v
	}
	ev := map[string]any{
		"property_id": r.Property,
		"tier":        tier,
		"seed":        seed,
		"level":       "other",
		"coverage":    cov,
		"assumptions": []string{
			"the decided clauses are necessary conditions of the behavioural property, not the behaviour itself (see DESIGN.md section 5, 'Not decided')",
			"the Go toolchain's type checker and go/ssa faithfully represent the source",
			"functions outside the module behave per their documentation",
		},
		"wall_s":     time.Since(start).Seconds(),
		"violations": len(bad),
	}
	b, _ := json.MarshalIndent(ev, "", " ")
	if err := os.WriteFile(filepath.Join(evDir, r.Property+".json"), append(b, '\n'), 0o644); err != nil {
		fmt.Fprintf(os.Stderr, "cannot write evidence: %v\n", err)
		return 1
	}
	fmt.Printf("%s %s: %d obligations, %d discharged, %d known finding(s), %d violated, %d undecided (%.1fs)\n",
		r.Property, tier, len(obs), discharged, len(knownHit), len(viol), len(und), time.Since(start).Seconds())
	return exit
}

func uniq(s []string) []string {
	var out []string
	for i, x := range s {
		if i == 0 || x != s[i-1] {
			out = append(out, x)
		}
	}
	return out
}
