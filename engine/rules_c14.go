package main

import (
	"go/constant"
	"go/token"
	"go/types"
	"os"
	"path/filepath"
	"regexp"
	"sort"
	"strconv"

	"golang.org/x/tools/go/ssa"
)

// C14 — typed values use HTCondor's byte layout and survive frame boundaries.
// Decided: the layout as structural facts (R1 integers, R2 widening, R3 doubles, R4 strings) and
// refill-before-read (R5). Helpers are in help_c14.go.

func init() { register("C14", c14r1, c14r2, c14r3, c14r4, c14r5) }

// c14api is the integer codec API of *Message, discovered by signature (exported methods only):
// encoders func(ctx, T) error, decoders func(ctx) (T, error), coders func(ctx, *T) error with T an integer
// type other than byte (bytes are characters: one byte on the wire).
type c14api struct {
	enc, dec, cod []*ssa.Function
}

func (c *Ctx) c14discover(e *c14env) c14api {
	var a c14api
	mt := e.pkg.Scope().Lookup("Message")
	if mt == nil {
		return a
	}
	ms := c.SSA.MethodSets.MethodSet(types.NewPointer(mt.Type()))
	isInt := func(t types.Type) bool {
		b, ok := t.Underlying().(*types.Basic)
		return ok && b.Info()&types.IsInteger != 0 && b.Kind() != types.Uint8
	}
	for i := 0; i < ms.Len(); i++ {
		fn := c.SSA.MethodValue(ms.At(i))
		if fn == nil || fn.Blocks == nil || fn.Object() == nil || !fn.Object().Exported() {
			continue
		}
		sig := fn.Signature
		ps, rs := sig.Params(), sig.Results()
		if ps.Len() == 0 || !c14isCtx(ps.At(0).Type()) {
			continue
		}
		switch {
		case ps.Len() == 2 && rs.Len() == 1 && isErrorType(rs.At(0).Type()) && isInt(ps.At(1).Type()):
			a.enc = append(a.enc, fn)
		case ps.Len() == 1 && rs.Len() == 2 && isErrorType(rs.At(1).Type()) && isInt(rs.At(0).Type()):
			a.dec = append(a.dec, fn)
		case ps.Len() == 2 && rs.Len() == 1 && isErrorType(rs.At(0).Type()):
			if pt, ok := ps.At(1).Type().Underlying().(*types.Pointer); ok && isInt(pt.Elem()) {
				a.cod = append(a.cod, fn)
			}
		}
	}
	byName := func(s []*ssa.Function) {
		sort.Slice(s, func(i, j int) bool { return fnName(s[i]) < fnName(s[j]) })
	}
	byName(a.enc)
	byName(a.dec)
	byName(a.cod)
	return a
}

// c14delegate returns the single call in fn to a member of set other than fn itself (nil if zero or several).
func c14delegate(fn *ssa.Function, set []*ssa.Function) (ssa.CallInstruction, *ssa.Function, int) {
	var call ssa.CallInstruction
	var to *ssa.Function
	n := 0
	allInstrs(fn, func(_ *ssa.BasicBlock, _ int, in ssa.Instruction) {
		ci, ok := in.(ssa.CallInstruction)
		if !ok {
			return
		}
		g := calleeFn(ci)
		for _, s := range set {
			if g == s && g != fn {
				call, to = ci, g
				n++
			}
		}
	})
	if n != 1 {
		return nil, nil, n
	}
	return call, to, 1
}

func c14lastParam(fn *ssa.Function) *ssa.Parameter {
	if len(fn.Params) == 0 {
		return nil
	}
	return fn.Params[len(fn.Params)-1]
}

// c14dirEdges: edges on which m.direction == val is known.
func (e *c14env) c14dirEdges(fn *ssa.Function, val int64) []Edge {
	var out []Edge
	for _, b := range fn.Blocks {
		ifi := blockIf(b)
		if ifi == nil {
			continue
		}
		a := condAtom(ifi.Cond)
		if a.Op != token.EQL && a.Op != token.NEQ {
			continue
		}
		x, y := a.X, a.Y
		if _, ok := c14loadOf(y, e.msgDir); ok {
			x, y = y, x
		}
		if _, ok := c14loadOf(x, e.msgDir); !ok {
			continue
		}
		k, ok := constInt(y)
		if !ok || k != val {
			continue
		}
		eq := a.Op == token.EQL
		if a.Neg {
			eq = !eq
		}
		if eq {
			out = append(out, Edge{b, 0})
		} else {
			out = append(out, Edge{b, 1})
		}
	}
	return out
}

// c14dirDominates: instruction in of fn is reached only behind an edge on which m.direction == val, the test
// being written inline, kept in a local boolean or made by a boolean helper (IsEncode / IsDecode).
func (c *Ctx) c14dirDominates(e *c14env, fn *ssa.Function, in ssa.Instruction, val int64) bool {
	top := cxTop(fn)
	atom := func(fr *cxFrame, a Atom) (onTrue, onFalse bool) {
		if a.Op != token.EQL && a.Op != token.NEQ {
			return false, false
		}
		x, y := a.X, a.Y
		if _, ok := c14loadOf(y, e.msgDir); ok {
			x, y = y, x
		}
		base, ok := c14loadOf(x, e.msgDir)
		if !ok {
			return false, false
		}
		if r := fr.resolve(base); r.fr != top || len(fn.Params) == 0 || r.v != ssa.Value(fn.Params[0]) {
			return false, false
		}
		k, ok := constInt(fr.resolve(y).v)
		if !ok || k != val {
			return false, false
		}
		eq := a.Op == token.EQL
		if a.Neg {
			eq = !eq
		}
		return eq, !eq
	}
	cuts := c.cxFactCuts(top, atom, cxDepth)
	if len(cuts.Edges)+len(cuts.Via) == 0 {
		return false
	}
	return findPath(entryPoint(fn), Target{Instr: in}, cuts) == nil
}

func c14dominatedByAny(fn *ssa.Function, in ssa.Instruction, edges []Edge) bool {
	if len(edges) == 0 {
		return false
	}
	return findPath(entryPoint(fn), Target{Instr: in}, newCuts().AddEdges(edges...)) == nil
}

// ---------------------------------------------------------------------------
// C14-R1: integers are 8 bytes big-endian; every integer codec delegates to PutInt/GetInt.
func c14r1(c *Ctx) {
	const rule = "C14-R1"
	c.Doc(rule, "PutInt writes exactly the 8 (=IntSize) bytes filled by binary.BigEndian.PutUint64 from its parameter; GetInt reads 8 bytes with io.ReadFull and decodes them with binary.BigEndian.Uint64; every other exported integer Put*/Get*/Code* method of Message (discovered by signature) delegates to these two without touching the buffer; characters are one WriteByte/ReadByte; nothing else in package message uses encoding/binary")
	e := c.c14load(rule)
	if !e.ok {
		return
	}
	intSize := c.needObj(rule, "message", "IntSize")
	if intSize == nil {
		return
	}
	sz, _ := constant.Int64Val(c14constVal(intSize))
	c.Check(sz == 8, rule, "IntSize==8", "IntSize is 8", "IntSize is not 8: integers do not travel as 8 bytes", intSize.Pos())

	// --- PutInt (with the unexported helpers it calls spliced in: a flush step, a write step)
	pi := e.putInt
	flush := c.LookupFn("message", "(*Message).FlushFrame")
	isBinary := func(_ *cxFrame, call ssa.CallInstruction) bool {
		o := calleeObj(call)
		return o != nil && o.Pkg() != nil && o.Pkg().Path() == "encoding/binary"
	}
	dp := c.c14deepOf(e, pi, flush)
	var put []c14site
	for _, s := range dp.calls(isBinary) {
		if o := calleeObj(s.in.(ssa.CallInstruction)); o == e.putU64 {
			put = append(put, s)
		} else {
			c.Violate(rule, fnName(pi)+"#byteorder", "PutInt encodes with "+o.FullName()+" instead of binary.BigEndian.PutUint64", s.in.Pos())
		}
	}
	if c.Check(len(put) == 1, rule, fnName(pi)+"#PutUint64", "exactly one binary.BigEndian.PutUint64 call", "PutInt does not contain exactly one binary.BigEndian.PutUint64 call", pi.Pos()) {
		args := put[0].in.(ssa.CallInstruction).Common().Args // receiver, buffer, value
		buf := dp.num(put[0].fr, args[1])
		root, n, _, isConst, full := c14sliceLen(buf.v)
		c.Check(full && isConst && n == 8 && n == sz, rule, fnName(pi)+"#buf8", "the encode buffer is a whole 8-byte slice", "the buffer handed to PutUint64 is not a whole slice of constant length 8 = IntSize", put[0].in.Pos())
		par := cxVal{dp.top, ssa.Value(c14lastParam(pi))}
		c.Check(dp.mentionsDeep(put[0].fr, args[2], func(f *cxFrame, v ssa.Value) bool { return cxVal{f, v} == par }), rule, fnName(pi)+"#value", "the encoded value derives from the parameter", "the value handed to PutUint64 does not derive from PutInt's parameter", put[0].in.Pos())
		uses, unknown := dp.uses()
		for _, u := range unknown {
			c.Undecided(rule, fnName(pi)+"#buffer-escapes", "Message.buffer is used in a way the rule cannot classify", u.Pos())
		}
		var writes []c14duse
		for _, u := range uses {
			if u.Kind == "write" {
				writes = append(writes, u)
			}
			if u.Kind == "consume" || u.Kind == "reset" {
				c.Violate(rule, fnName(pi)+"#buffer-"+u.Method, "PutInt must only append its 8 bytes to the buffer", u.Call.Pos())
			}
		}
		okW := len(writes) == 1 && writes[0].Method == "Write"
		if okW {
			wb := dp.num(writes[0].fr, writes[0].Arg)
			wroot, _, _, _, wfull := c14sliceLen(wb.v)
			okW = wfull && wroot == root && root != nil && wb.fr == buf.fr
			if okW {
				// PutUint64 fills the buffer before it is written
				okW = dp.reach(cxEntry(dp.top), map[c14site]bool{{writes[0].fr, writes[0].Call}: true}, c14siteSet(put), nil) == nil
			}
		}
		c.Check(okW, rule, fnName(pi)+"#write8", "the only buffer write appends the 8 encoded bytes", "PutInt does not append exactly the whole 8-byte buffer filled by PutUint64 (one Write, after the encode)", pi.Pos())
	}

	// --- GetInt (with the unexported helpers it calls spliced in: a read-exactly step)
	gi := e.getInt
	dg := c.c14deepOf(e, gi)
	var get []c14site
	for _, s := range dg.calls(isBinary) {
		if o := calleeObj(s.in.(ssa.CallInstruction)); o == e.getU64 {
			get = append(get, s)
		} else {
			c.Violate(rule, fnName(gi)+"#byteorder", "GetInt decodes with "+o.FullName()+" instead of binary.BigEndian.Uint64", s.in.Pos())
		}
	}
	if c.Check(len(get) == 1, rule, fnName(gi)+"#Uint64", "exactly one binary.BigEndian.Uint64 call", "GetInt does not contain exactly one binary.BigEndian.Uint64 call", gi.Pos()) {
		uses, unknown := dg.uses()
		for _, u := range unknown {
			c.Undecided(rule, fnName(gi)+"#buffer-escapes", "Message.buffer is used in a way the rule cannot classify", u.Pos())
		}
		var reads []c14duse
		for _, u := range uses {
			if u.Kind == "consume" {
				reads = append(reads, u)
			}
			if u.Kind == "write" || u.Kind == "reset" {
				c.Violate(rule, fnName(gi)+"#buffer-"+u.Method, "GetInt must only consume its 8 bytes from the buffer", u.Call.Pos())
			}
		}
		okR := len(reads) == 1 && reads[0].Method == "io.ReadFull"
		var root ssa.Value
		var rootFr *cxFrame
		if okR {
			rb := dg.num(reads[0].fr, reads[0].Arg)
			r, n, _, isConst, full := c14sliceLen(rb.v)
			root, rootFr = r, rb.fr
			okR = full && isConst && n == 8 && n == sz
		}
		c.Check(okR, rule, fnName(gi)+"#read8", "the only buffer read is io.ReadFull of a whole 8-byte slice", "GetInt does not consume exactly 8 = IntSize bytes with one io.ReadFull", gi.Pos())
		getCall := get[0].in.(ssa.CallInstruction)
		if okR {
			db := dg.num(get[0].fr, getCall.Common().Args[1])
			droot, _, _, _, dfull := c14sliceLen(db.v)
			c.Check(dfull && droot == root && db.fr == rootFr, rule, fnName(gi)+"#decode-same-buf", "Uint64 decodes the bytes just read", "binary.BigEndian.Uint64 is not applied to the whole buffer filled by io.ReadFull", get[0].in.Pos())
			rs := []c14site{{reads[0].fr, reads[0].Call}}
			succE, whole := dg.succOf(rs)
			if len(succE) == 0 && len(whole) == 0 {
				c.Violate(rule, fnName(gi)+"#readfull-err", "the error of io.ReadFull is never tested", reads[0].Call.Pos())
			} else {
				key := fnName(gi) + "#decode-after-read"
				if p := dg.reach(cxEntry(dg.top), c14siteSet(get), whole, func(fr *cxFrame, ed Edge) bool { return succE[fr][ed] }); p != nil {
					c.Violate(rule, key, "reachable without passing a nil-error io.ReadFull", get[0].in.Pos(), c.describePath(p)...)
				} else {
					c.Ok(rule, key, "every path to it passes a nil-error io.ReadFull", get[0].in.Pos())
				}
			}
		}
		for _, t := range c.c14successTargets(gi) {
			dep := false
			if get[0].fr == dg.top {
				dep = mustDepend(gi, t.Ret.Results[0], func(v ssa.Value) bool { return v == getCall.Value() })
			} else {
				dep = dg.mentionsDeep(dg.top, t.Ret.Results[0], func(f *cxFrame, v ssa.Value) bool { return f == get[0].fr && v == getCall.Value() })
			}
			c.Check(dep, rule, fnName(gi)+"#result", "the result is the decoded value", "a success return of GetInt does not return the value decoded by Uint64", t.Ret.Pos())
		}
	}

	// --- delegation of the other integer codecs
	api := c.c14discover(e)
	c.MinCount(rule, "integer encoders (by signature)", len(api.enc), 2) // PutInt and at least one narrower/wider wrapper
	c.MinCount(rule, "integer decoders (by signature)", len(api.dec), 2)
	c.MinCount(rule, "integer coders (by signature)", len(api.cod), 1)
	reaches := func(fn, base *ssa.Function, set []*ssa.Function) bool {
		for i := 0; i < 6 && fn != nil; i++ {
			if fn == base {
				return true
			}
			_, fn, _ = c14delegate(fn, set)
		}
		return false
	}
	for _, fn := range api.enc {
		if fn == pi {
			continue
		}
		key := fnName(fn) + "#delegates"
		call, _, n := c14delegate(fn, api.enc)
		uses, unknown := e.c14bufUses(fn)
		if n != 1 || len(uses)+len(unknown) > 0 || !reaches(fn, pi, api.enc) {
			c.Violate(rule, key, "integer encoder does not delegate (single call, no direct buffer access) to PutInt: its bytes are not PutInt's 8-byte big-endian form", fn.Pos())
			continue
		}
		args := call.Common().Args
		src, _ := c14convChain(args[len(args)-1])
		okA := src == ssa.Value(c14lastParam(fn))
		okRet := true
		for _, r := range c14returns(fn) {
			if r.Results[0] != call.Value() {
				okRet = false
			}
		}
		c.Check(okA && okRet, rule, key, "converts its parameter and returns the delegate's error", "integer encoder does not pass (a conversion of) its parameter to the delegate or does not return the delegate's error", call.Pos())
	}
	for _, fn := range api.dec {
		if fn == gi {
			continue
		}
		key := fnName(fn) + "#delegates"
		call, _, n := c14delegate(fn, api.dec)
		uses, unknown := e.c14bufUses(fn)
		if n != 1 || len(uses)+len(unknown) > 0 || !reaches(fn, gi, api.dec) {
			c.Violate(rule, key, "integer decoder does not delegate (single call, no direct buffer access) to GetInt", fn.Pos())
			continue
		}
		okAll := true
		for _, r := range c14returns(fn) {
			src, _ := c14convChain(r.Results[0])
			if src != extractN(call.Value(), 0) || r.Results[1] != extractN(call.Value(), 1) {
				okAll = false
			}
		}
		c.Check(okAll, rule, key, "returns (a conversion of) the delegate's value and its error", "integer decoder does not return (a conversion of) the delegate's value together with its error", call.Pos())
	}
	encC := c.needObj(rule, "message", "CodingEncode")
	decC := c.needObj(rule, "message", "CodingDecode")
	if encC != nil && decC != nil {
		ev, _ := constant.Int64Val(c14constVal(encC))
		dv, _ := constant.Int64Val(c14constVal(decC))
		for _, fn := range api.cod {
			key := fnName(fn) + "#coder"
			elem := fn.Signature.Params().At(1).Type().Underlying().(*types.Pointer).Elem()
			pc, pf, pn := c14delegate(fn, api.enc)
			gc, gf, gn := c14delegate(fn, api.dec)
			uses, unknown := e.c14bufUses(fn)
			if pn != 1 || gn != 1 || len(uses)+len(unknown) > 0 {
				c.Violate(rule, key, "integer coder does not consist of one encoder call and one decoder call", fn.Pos())
				continue
			}
			okT := types.Identical(pf.Signature.Params().At(1).Type(), elem) && types.Identical(gf.Signature.Results().At(0).Type(), elem)
			okDir := c.c14dirDominates(e, fn, pc, ev) && c.c14dirDominates(e, fn, gc, dv)
			pargs := pc.Common().Args
			ld, isLd := pargs[len(pargs)-1].(*ssa.UnOp)
			okArg := isLd && ld.Op == token.MUL && ld.X == ssa.Value(c14lastParam(fn))
			okSt := false
			if ex := extractN(gc.Value(), 0); ex != nil {
				for _, r := range *ex.Referrers() {
					if st, ok := r.(*ssa.Store); ok && st.Addr == ssa.Value(c14lastParam(fn)) && st.Val == ex {
						okSt = true
					}
				}
			}
			c.Check(okT && okDir && okArg && okSt, rule, key, "encodes *value with the encoder of its type when encoding, stores the decoder's result when decoding", "integer coder pairs the wrong encoder/decoder, the wrong direction, or does not pass/store *value", fn.Pos())
		}
	}

	// --- characters are single bytes
	if pc := c.needFn(rule, "message", "(*Message).PutChar"); pc != nil {
		uses, _ := e.c14bufUses(pc)
		var w []c14bufUse
		for _, u := range uses {
			if u.Kind != "peek" {
				w = append(w, u)
			}
		}
		c.Check(len(w) == 1 && w[0].Method == "WriteByte" && w[0].Arg == ssa.Value(c14lastParam(pc)), rule, fnName(pc)+"#one-byte", "writes its parameter with one WriteByte", "PutChar does not write exactly its parameter as one byte", pc.Pos())
	}
	if gc := c.needFn(rule, "message", "(*Message).GetChar"); gc != nil {
		uses, _ := e.c14bufUses(gc)
		var r []c14bufUse
		for _, u := range uses {
			if u.Kind != "peek" {
				r = append(r, u)
			}
		}
		ok := len(r) == 1 && r[0].Method == "ReadByte"
		if ok {
			for _, t := range c.c14successTargets(gc) {
				if t.Ret.Results[0] != extractN(r[0].Call.Value(), 0) {
					ok = false
				}
			}
		}
		c.Check(ok, rule, fnName(gc)+"#one-byte", "returns the byte read with one ReadByte", "GetChar does not return exactly one byte read from the buffer", gc.Pos())
	}

	// --- nothing else in the package encodes integers
	var users []*ssa.Function
	poss := map[*ssa.Function]token.Pos{}
	for _, fn := range c.FnsOfPkg("message") {
		allInstrs(fn, func(_ *ssa.BasicBlock, _ int, in ssa.Instruction) {
			if call, ok := in.(ssa.CallInstruction); ok {
				if o := calleeObj(call); o != nil && o.Pkg() != nil && o.Pkg().Path() == "encoding/binary" {
					users = append(users, fn)
					poss[fn] = call.Pos()
				}
			}
		})
	}
	c.whoMayDeep(rule, "call encoding/binary in package message", users, poss, fnSet(pi, gi))
	c.MinCount(rule, "encoding/binary call sites in package message", len(users), 2)
}

// ---------------------------------------------------------------------------
// C14-R2: value-preserving widening under the configuration's word size.
func c14r2(c *Ctx) {
	const rule = "C14-R2"
	c.Doc(rule, "for every integer encoder the conversion chain from the API parameter type to the uint64 handed to PutUint64 is sign-extending for signed and zero-extending for unsigned parameter types, and for every decoder no intermediate type is narrower than the result type, under the configuration's types.Sizes (a word-size dependent narrowing seen only with 32-bit int is recorded as a configuration note)")
	e := c.c14load(rule)
	if !e.ok {
		return
	}
	arch := c.GOARCH
	if arch == "" {
		arch = "amd64"
	}
	sizes := types.SizesFor("gc", arch)
	if sizes == nil {
		c.Undecided(rule, "sizes:"+arch, "no types.Sizes for this architecture", token.NoPos)
		return
	}
	word32 := sizes.Sizeof(types.Typ[types.Int]) == 4
	api := c.c14discover(e)
	report := func(fn *ssa.Function, key, problem, okMsg string) {
		switch {
		case problem == "":
			c.Ok(rule, key, okMsg, fn.Pos())
		case word32:
			// documented limitation of 32-bit builds: the API funnels every width through int
			c.Note("%s: %s on %s: %s (word-size dependent; holds with 64-bit int)", rule, fnName(fn), c.Config, problem)
			c.Ok(rule, key, okMsg+" with 64-bit int ("+c.Config+": "+problem+", recorded as a configuration note)", fn.Pos())
		default:
			c.Violate(rule, key, problem, fn.Pos())
		}
	}
	// encode side
	var encChain func(fn *ssa.Function, depth int) ([]types.Type, string)
	encChain = func(fn *ssa.Function, depth int) ([]types.Type, string) {
		if depth > 6 {
			return nil, "delegation too deep"
		}
		if fn == e.putInt {
			// PutUint64 may sit in PutInt or in an unexported helper it hands the value to
			d := c.c14deepOf(e, fn, c.LookupFn("message", "(*Message).FlushFrame"))
			calls := d.callsTo(e.putU64)
			if len(calls) != 1 {
				return nil, "no single PutUint64 call"
			}
			chains := d.convChains(calls[0].fr, calls[0].in.(ssa.CallInstruction).Common().Args[2])
			if len(chains) != 1 || chains[0].src != (cxVal{d.top, ssa.Value(c14lastParam(fn))}) {
				return nil, "the value handed to PutUint64 is not a pure conversion of the parameter"
			}
			return chains[0].types, ""
		}
		call, to, n := c14delegate(fn, api.enc)
		if n != 1 {
			return nil, "no single delegate call"
		}
		args := call.Common().Args
		src, ch := c14convChain(args[len(args)-1])
		if src != ssa.Value(c14lastParam(fn)) {
			return nil, "the delegate's argument is not a pure conversion of the parameter"
		}
		rest, why := encChain(to, depth+1)
		if why != "" {
			return nil, why
		}
		return append(ch, rest[1:]...), ""
	}
	n := 0
	for _, fn := range api.enc {
		n++
		key := fnName(fn) + "#widening"
		ch, why := encChain(fn, 0)
		if why != "" {
			c.Undecided(rule, key, "cannot extract the conversion chain: "+why, fn.Pos())
			continue
		}
		problem := c14widening(ch, sizes)
		if problem == "" {
			if b, _, _ := c14intInfo(ch[len(ch)-1], sizes); b != 64 {
				problem = "the encoded value is not 64 bits wide"
			}
		}
		report(fn, key, problem, "parameter is extended to 64 bits according to its own signedness")
	}
	c.MinCount(rule, "encoder chains", n, 2)
	// decode side
	var decChain func(fn *ssa.Function, depth int) ([][]types.Type, string)
	decChain = func(fn *ssa.Function, depth int) ([][]types.Type, string) {
		if depth > 6 {
			return nil, "delegation too deep"
		}
		var from ssa.Value
		var pre [][]types.Type
		if fn == e.getInt {
			// Uint64 may sit in GetInt or in an unexported value helper whose result GetInt converts
			d := c.c14deepOf(e, fn)
			calls := d.callsTo(e.getU64)
			if len(calls) != 1 {
				return nil, "no single Uint64 call"
			}
			want := cxVal{calls[0].fr, calls[0].in.(ssa.Value)}
			var out [][]types.Type
			for _, t := range c.c14successTargets(fn) {
				for _, ch := range d.convChains(d.top, t.Ret.Results[0]) {
					if ch.src != want {
						return nil, "a returned value is not a pure conversion of the decoded value"
					}
					out = append(out, ch.types)
				}
			}
			if len(out) == 0 {
				return nil, "no success return"
			}
			return out, ""
		} else {
			call, to, n := c14delegate(fn, api.dec)
			if n != 1 {
				return nil, "no single delegate call"
			}
			from = extractN(call.Value(), 0)
			var why string
			pre, why = decChain(to, depth+1)
			if why != "" {
				return nil, why
			}
		}
		var out [][]types.Type
		for _, t := range c.c14successTargets(fn) {
			src, ch := c14convChain(t.Ret.Results[0])
			if src != from {
				return nil, "a returned value is not a pure conversion of the decoded value"
			}
			for _, p := range pre {
				out = append(out, append(append([]types.Type{}, p...), ch[1:]...))
			}
		}
		if len(out) == 0 {
			return nil, "no success return"
		}
		return out, ""
	}
	n = 0
	for _, fn := range api.dec {
		n++
		key := fnName(fn) + "#narrowing"
		chains, why := decChain(fn, 0)
		if why != "" {
			c.Undecided(rule, key, "cannot extract the conversion chain: "+why, fn.Pos())
			continue
		}
		problem := ""
		for _, ch := range chains {
			if p := c14narrowing(ch, sizes); p != "" {
				problem = p
			}
		}
		report(fn, key, problem, "the result is the low bits of the 64-bit wire value, never narrowed below the result type on the way")
	}
	c.MinCount(rule, "decoder chains", n, 2)
}

// ---------------------------------------------------------------------------
// C14-R3: doubles = (frexp fraction * FracConst as int32, exponent as int32), decoded symmetrically.
func c14r3(c *Ctx) {
	const rule = "C14-R3"
	c.Doc(rule, "PutDouble = math.Frexp -> fraction * FracConst -> int32 -> PutInt32(fraction) then PutInt32(exponent); GetDouble = GetInt32, GetInt32 in the same order -> fraction / FracConst -> math.Ldexp; both name the same constant object; FracConst = 2^31-1 and equals every number quoted for it in protocol/CEDAR_PROTOCOL.md; PutFloat/GetFloat delegate")
	e := c.c14load(rule)
	pd := c.needFn(rule, "message", "(*Message).PutDouble")
	gd := c.needFn(rule, "message", "(*Message).GetDouble")
	pi32 := c.needFn(rule, "message", "(*Message).PutInt32")
	gi32 := c.needFn(rule, "message", "(*Message).GetInt32")
	frac := c.needObj(rule, "message", "FracConst")
	frexp := c.c14pkgFunc(rule, "math", "Frexp")
	ldexp := c.c14pkgFunc(rule, "math", "Ldexp")
	if !e.ok || pd == nil || gd == nil || pi32 == nil || gi32 == nil || frac == nil || frexp == nil || ldexp == nil {
		return
	}
	fv := c14constVal(frac)
	if fv == nil {
		c.Undecided(rule, "FracConst", "FracConst is not a constant", frac.Pos())
		return
	}
	want := constant.MakeInt64(1<<31 - 1) // from the property statement: "fraction scaled by 2^31-1"
	c.Check(constant.Compare(constant.ToInt(fv), token.EQL, want), rule, "FracConst==2^31-1", "FracConst is 2^31-1", "FracConst is "+fv.ExactString()+", not 2^31-1 = 2147483647", frac.Pos())
	isFrac := func(v ssa.Value) bool {
		k, ok := v.(*ssa.Const)
		return ok && k.Value != nil && constant.Compare(constant.ToFloat(k.Value), token.EQL, constant.ToFloat(fv))
	}
	var apiFns []*ssa.Function
	api := c.c14discover(e)
	apiFns = append(apiFns, api.enc...)
	apiFns = append(apiFns, api.dec...)
	dpd, dgd := c.c14deepOf(e, pd, apiFns...), c.c14deepOf(e, gd, apiFns...)
	names := func(d *c14deep) bool { // the function, or a helper that does the arithmetic for it, names FracConst
		for _, fr := range d.walk() {
			if c.c14astUses(fr.fn, frac) >= 1 {
				return true
			}
		}
		return false
	}
	c.Check(names(dpd), rule, fnName(pd)+"#names-FracConst", "scales by the named constant FracConst", "PutDouble does not refer to the constant FracConst", pd.Pos())
	c.Check(names(dgd), rule, fnName(gd)+"#names-FracConst", "scales by the named constant FracConst", "GetDouble does not refer to the constant FracConst", gd.Pos())
	// order: the call behind whose nil-error edge the other lies is the first item on the wire
	ordered := func(d *c14deep, calls []c14site) (first, second c14site, ok bool) {
		try := func(a, b c14site) bool {
			succE, whole := d.succOf([]c14site{a})
			if len(succE) == 0 && len(whole) == 0 {
				return false
			}
			return d.reach(cxEntry(d.top), map[c14site]bool{b: true}, whole, func(fr *cxFrame, ed Edge) bool { return succE[fr][ed] }) == nil
		}
		if try(calls[0], calls[1]) {
			return calls[0], calls[1], true
		}
		if try(calls[1], calls[0]) {
			return calls[1], calls[0], true
		}
		return calls[0], calls[1], false
	}
	lastArg := func(s c14site) ssa.Value {
		a := s.in.(ssa.CallInstruction).Common().Args
		return a[len(a)-1]
	}

	// --- encode
	fx := dpd.callsTo(frexp)
	puts := dpd.callsTo(pi32.Object())
	if c.Check(len(fx) == 1 && len(puts) == 2, rule, fnName(pd)+"#shape", "one Frexp and two PutInt32 calls", "PutDouble is not one math.Frexp followed by two PutInt32 calls", pd.Pos()) {
		fxCall := fx[0].in.(ssa.CallInstruction)
		c.Check(dpd.num(fx[0].fr, fxCall.Common().Args[0]) == cxVal{dpd.top, ssa.Value(c14lastParam(pd))}, rule, fnName(pd)+"#frexp-arg", "Frexp is applied to the parameter", "math.Frexp is not applied to PutDouble's parameter", fx[0].in.Pos())
		fracV, expV := extractN(fxCall.Value(), 0), extractN(fxCall.Value(), 1)
		isFracInt := func(fr *cxFrame, v ssa.Value) bool { // int32(frac * FracConst)
			ls := dpd.leaves(fr, v)
			for _, l := range ls {
				mul, ok := l.v.(*ssa.BinOp)
				if !ok || mul.Op != token.MUL || l.fr != fx[0].fr || fracV == nil {
					return false
				}
				if !((mul.X == fracV && isFrac(mul.Y)) || (mul.Y == fracV && isFrac(mul.X))) {
					return false
				}
			}
			return len(ls) > 0
		}
		isExpInt := func(fr *cxFrame, v ssa.Value) bool { // int32(exp)
			ls := dpd.leaves(fr, v)
			for _, l := range ls {
				if l.fr != fx[0].fr || l.v != expV || expV == nil {
					return false
				}
			}
			return len(ls) > 0
		}
		first, second, okOrd := ordered(dpd, puts)
		c.Check(okOrd, rule, fnName(pd)+"#order", "the second item is written only after the first succeeded", "the two PutInt32 calls of PutDouble are not sequenced through the first one's nil-error edge", pd.Pos())
		c.Check(isFracInt(first.fr, lastArg(first)), rule, fnName(pd)+"#item1=fraction", "first item is int32(fraction*FracConst)", "the first integer PutDouble writes is not int32(frexp fraction * FracConst)", first.in.Pos())
		c.Check(isExpInt(second.fr, lastArg(second)), rule, fnName(pd)+"#item2=exponent", "second item is int32(exponent)", "the second integer PutDouble writes is not int32(frexp exponent)", second.in.Pos())
		// every success return follows both writes
		succE, whole := dpd.succOf([]c14site{second})
		c.c14mustPassReturnsDeep(rule, dpd, c.c14successTargets(pd), whole, func(fr *cxFrame, ed Edge) bool { return succE[fr][ed] }, "both PutInt32 calls")
	}
	// --- decode
	gets := dgd.callsTo(gi32.Object())
	ld := dgd.callsTo(ldexp)
	if c.Check(len(gets) == 2 && len(ld) == 1, rule, fnName(gd)+"#shape", "two GetInt32 calls and one Ldexp", "GetDouble is not two GetInt32 calls followed by one math.Ldexp", gd.Pos()) {
		first, second, okOrd := ordered(dgd, gets)
		c.Check(okOrd, rule, fnName(gd)+"#order", "the second item is read only after the first succeeded", "the two GetInt32 calls of GetDouble are not sequenced through the first one's nil-error edge", gd.Pos())
		v1, v2 := cxVal{first.fr, extractN(first.in.(ssa.Value), 0)}, cxVal{second.fr, extractN(second.in.(ssa.Value), 0)}
		ldCall := ld[0].in.(ssa.CallInstruction)
		args := ldCall.Common().Args
		okFrac := false
		if ls := dgd.leaves(ld[0].fr, args[0]); len(ls) > 0 {
			okFrac = true
			for _, l := range ls {
				q, ok := l.v.(*ssa.BinOp)
				if !ok || q.Op != token.QUO || !isFrac(q.Y) {
					okFrac = false
					continue
				}
				for _, n := range dgd.leaves(l.fr, q.X) {
					if v1.v == nil || n != v1 {
						okFrac = false
					}
				}
			}
		}
		okExp := v2.v != nil
		for _, l := range dgd.leaves(ld[0].fr, args[1]) {
			if l != v2 {
				okExp = false
			}
		}
		c.Check(okFrac, rule, fnName(gd)+"#item1=fraction", "Ldexp's fraction is float64(first item)/FracConst", "the fraction given to math.Ldexp is not the first integer read divided by FracConst", ld[0].in.Pos())
		c.Check(okExp, rule, fnName(gd)+"#item2=exponent", "Ldexp's exponent is the second item", "the exponent given to math.Ldexp is not the second integer read", ld[0].in.Pos())
		succE, whole := dgd.succOf([]c14site{second})
		if len(succE) == 0 && len(whole) == 0 {
			c.Violate(rule, fnName(gd)+"#ldexp-after-reads", "the error of the second GetInt32 is never tested", second.in.Pos())
		} else if p := dgd.reach(cxEntry(dgd.top), c14siteSet(ld), whole, func(fr *cxFrame, ed Edge) bool { return succE[fr][ed] }); p != nil {
			c.Violate(rule, fnName(gd)+"#ldexp-after-reads", "reachable without passing both GetInt32 calls succeeding", ld[0].in.Pos(), c.describePath(p)...)
		} else {
			c.Ok(rule, fnName(gd)+"#ldexp-after-reads", "every path to it passes both GetInt32 calls succeeding", ld[0].in.Pos())
		}
		for _, t := range c.c14successTargets(gd) {
			okRes := true
			ls := dgd.leaves(dgd.top, t.Ret.Results[0])
			for _, l := range ls {
				if l.fr != ld[0].fr || l.v != ldCall.Value() {
					okRes = false
				}
			}
			c.Check(okRes && len(ls) > 0, rule, fnName(gd)+"#result", "returns Ldexp's value", "a success return of GetDouble does not return math.Ldexp's value", t.Ret.Pos())
		}
	}
	// --- float delegates
	if pf := c.needFn(rule, "message", "(*Message).PutFloat"); pf != nil {
		calls := callsIn(pf, pd.Object())
		ok := len(calls) == 1
		if ok {
			a := calls[0].Common().Args
			src, _ := c14convChain(a[len(a)-1])
			ok = src == ssa.Value(c14lastParam(pf))
			for _, r := range c14returns(pf) {
				ok = ok && r.Results[0] == calls[0].Value()
			}
		}
		c.Check(ok, rule, fnName(pf)+"#delegates", "PutFloat = PutDouble(float64(v))", "PutFloat does not delegate to PutDouble", pf.Pos())
	}
	if gf := c.needFn(rule, "message", "(*Message).GetFloat"); gf != nil {
		calls := callsIn(gf, gd.Object())
		ok := len(calls) == 1
		if ok {
			for _, r := range c14returns(gf) {
				src, _ := c14convChain(r.Results[0])
				ok = ok && src == extractN(calls[0].Value(), 0) && r.Results[1] == extractN(calls[0].Value(), 1)
			}
		}
		c.Check(ok, rule, fnName(gf)+"#delegates", "GetFloat = float32(GetDouble())", "GetFloat does not delegate to GetDouble", gf.Pos())
	}
	// --- the repository's own protocol document
	docPath := filepath.Join(c.Repo, "protocol", "CEDAR_PROTOCOL.md")
	doc, err := os.ReadFile(docPath)
	if err != nil {
		c.AnchorMissing(rule, "protocol/CEDAR_PROTOCOL.md")
		return
	}
	nq := 0
	for _, re := range []*regexp.Regexp{
		regexp.MustCompile(`FracConst\s*=\s*([0-9]+)`),
		regexp.MustCompile(`frexp\(value\)\s*\*\s*([0-9]+)`),
		regexp.MustCompile(`ldexp\(frac\s*/\s*([0-9]+)`),
	} {
		for _, m := range re.FindAllSubmatch(doc, -1) {
			nq++
			q := constant.MakeFromLiteral(string(m[1]), token.INT, 0)
			c.Check(constant.Compare(q, token.EQL, constant.ToInt(fv)), rule, "doc:"+re.String(), "the protocol document quotes the same constant", "protocol/CEDAR_PROTOCOL.md quotes "+string(m[1])+" but the code's FracConst is "+fv.ExactString(), frac.Pos())
		}
	}
	c.MinCount(rule, "quotations of the fraction constant in protocol/CEDAR_PROTOCOL.md", nq, 1)
}

// ---------------------------------------------------------------------------
// C14-R4: strings.

// c14foundEdge: the edge of fn on which idx (a bytes.IndexByte result) is known >= 0.
func c14foundEdges(fn *ssa.Function, idx ssa.Value) []Edge {
	var out []Edge
	for _, b := range fn.Blocks {
		ifi := blockIf(b)
		if ifi == nil {
			continue
		}
		a := condAtom(ifi.Cond)
		if a.X != idx {
			continue
		}
		k, ok := constInt(a.Y)
		if !ok {
			continue
		}
		var foundOnTrue bool
		switch {
		case a.Op == token.GEQ && k == 0, a.Op == token.GTR && k == -1, a.Op == token.NEQ && k == -1:
			foundOnTrue = true
		case a.Op == token.LSS && k == 0, a.Op == token.LEQ && k == -1, a.Op == token.EQL && k == -1:
			foundOnTrue = false
		default:
			continue
		}
		if a.Neg {
			foundOnTrue = !foundOnTrue
		}
		if foundOnTrue {
			out = append(out, Edge{b, 0})
		} else {
			out = append(out, Edge{b, 1})
		}
	}
	return out
}

// c14isNulSlice: v is a one-byte slice holding the constant 0 ([]byte{0}).
func c14isNulSlice(v ssa.Value) bool {
	root, n, _, isConst, full := c14sliceLen(v)
	al, ok := root.(*ssa.Alloc)
	if !ok || !isConst || !full || n != 1 {
		return false
	}
	stores, zero := 0, 0
	for _, r := range *al.Referrers() {
		ia, ok := r.(*ssa.IndexAddr)
		if !ok {
			continue
		}
		for _, u := range *ia.Referrers() {
			if st, ok := u.(*ssa.Store); ok && st.Addr == ia {
				stores++
				if k, ok := constInt(st.Val); ok && k == 0 {
					zero++
				}
			}
		}
	}
	return stores == 1 && zero == 1
}

type c14sink struct {
	call ssa.CallInstruction
	kind string // "full" payload+NUL | "payload" | "nul" | "other"
}

// c14stringEncoder decides one string encoder (the function with the unexported helpers it calls spliced in).
func (c *Ctx) c14stringEncoder(rule string, e *c14env, d *c14deep, idxFn *types.Func, putBytes *ssa.Function, encObjs []types.Object) {
	fn := d.top.fn
	par := cxVal{d.top, ssa.Value(c14lastParam(fn))}
	isPar := func(fr *cxFrame, v ssa.Value) bool { return d.num(fr, v) == par }
	// the single m.stream.IsEncrypted() invoke
	encSites := d.calls(func(fr *cxFrame, call ssa.CallInstruction) bool {
		if !call.Common().IsInvoke() || call.Common().Method != e.isEnc {
			return false
		}
		base, ok := c14loadOf(call.Common().Value, e.msgStrm)
		return ok && d.isRecv(fr, base)
	})
	if len(encSites) != 1 {
		c.Violate(rule, fnName(fn)+"#IsEncrypted", "does not consult m.stream.IsEncrypted() exactly once", fn.Pos())
		return
	}
	encT, encF := d.boolEdgesOf(encSites[0].fr, encSites[0].in.(ssa.Value))
	// (1) truncation at the first NUL: bytes.IndexByte(param, 0), the cut param[:idx] behind the found edge, and
	// the payload = the cut when found, else the parameter -- selected in place or by a value helper
	var trunc cxVal
	var cutPos token.Pos
	nIdx, okIdx, haveCut := 0, false, false
	for _, fr := range d.walk() {
		for _, ic := range callsIn(fr.fn, idxFn) {
			nIdx++
			a := ic.Common().Args
			k, isC := constInt(a[1])
			if !isPar(fr, a[0]) || !isC || k != 0 {
				continue
			}
			okIdx = true
			found := c14foundEdges(fr.fn, ic.Value())
			var notFound []Edge
			for _, fe := range found {
				notFound = append(notFound, Edge{fe.From, 1 - fe.Succ})
			}
			var cut *ssa.Slice
			allInstrs(fr.fn, func(_ *ssa.BasicBlock, _ int, in ssa.Instruction) {
				if sl, ok := in.(*ssa.Slice); ok && sl.High == ic.Value() && sl.Low == nil && isPar(fr, sl.X) {
					cut = sl
				}
			})
			if cut == nil || len(found) == 0 || !c14dominatedByAny(fr.fn, cut, found) {
				continue
			}
			haveCut = true
			cutPos = cut.Pos()
			// in place: if idx >= 0 { v = v[:idx] }
			for _, r := range *cut.Referrers() {
				if phi, ok := r.(*ssa.Phi); ok && len(phi.Edges) == 2 {
					if (isPar(fr, phi.Edges[0]) && phi.Edges[1] == ssa.Value(cut)) || (isPar(fr, phi.Edges[1]) && phi.Edges[0] == ssa.Value(cut)) {
						if _, isRet := phiOnlyReturned(phi); !isRet || fr.up == nil {
							trunc = cxVal{fr, phi}
						}
					}
				}
			}
			// value helper: every return hands back the cut (found) or the parameter itself (behind a not-found edge)
			if trunc.v == nil && fr.up != nil && fr.call != nil {
				okRets, nCut := true, 0
				for _, ret := range cxReturns(fr.fn) {
					if len(ret.Results) == 0 {
						okRets = false
						continue
					}
					vals := []ssa.Value{ret.Results[0]}
					preds := []*ssa.BasicBlock{nil}
					if phi, ok := ret.Results[0].(*ssa.Phi); ok && phi.Block() == ret.Block() {
						vals, preds = phi.Edges, ret.Block().Preds
					}
					for i, v := range vals {
						switch {
						case v == ssa.Value(cut):
							nCut++
						case isPar(fr, v):
							if findPath(entryPoint(fr.fn), Target{Instr: ret, Pred: preds[i]}, newCuts().AddEdges(notFound...)) != nil {
								okRets = false // the uncut value can be returned although a NUL was found
							}
						default:
							okRets = false
						}
					}
				}
				if okRets && nCut > 0 {
					if cv, ok := fr.call.(ssa.Value); ok {
						trunc = cxVal{fr.up, cv}
					}
				}
			}
		}
	}
	if !c.Check(okIdx && nIdx == 1, rule, fnName(fn)+"#find-NUL", "searches the parameter for the first NUL", "does not search its parameter for the first NUL byte with bytes.IndexByte(., 0)", fn.Pos()) {
		return
	}
	if trunc.v == nil {
		if !haveCut {
			c.Violate(rule, fnName(fn)+"#cut-at-NUL", "the parameter is never cut at the index of the first NUL", fn.Pos())
		} else {
			c.Undecided(rule, fnName(fn)+"#cut-at-NUL", "cannot follow how the NUL-truncated value is selected (expected: if idx >= 0 { v = v[:idx] }, in place or in a value helper)", cutPos)
		}
		return
	}
	c.Ok(rule, fnName(fn)+"#cut-at-NUL", "payload = parameter cut at the first NUL when one is present", cutPos)
	isTrunc := func(fr *cxFrame, v ssa.Value) bool { return d.num(fr, v) == trunc }
	isFull := func(fr *cxFrame, v ssa.Value) bool { // []byte(trunc + "\x00")
		r := d.num(fr, v)
		add, ok := r.v.(*ssa.BinOp)
		if !ok || add.Op != token.ADD || !isTrunc(r.fr, add.X) {
			return false
		}
		s, ok := constString(add.Y)
		return ok && s == "\x00"
	}
	// (2) sinks
	type sink struct {
		c14site
		kind string // "full" payload+NUL | "payload" | "nul" | "other"
	}
	var sinks []sink
	classify := func(fr *cxFrame, call ssa.CallInstruction, arg ssa.Value, isByte bool) {
		k := "other"
		switch {
		case isByte:
			if v, ok := constInt(fr.resolve(arg).v); ok && v == 0 {
				k = "nul"
			}
		case isFull(fr, arg):
			k = "full"
		case isTrunc(fr, arg):
			k = "payload"
		case c14isNulSlice(fr.resolve(arg).v):
			k = "nul"
		}
		sinks = append(sinks, sink{c14site{fr, call}, k})
	}
	uses, unknown := d.uses()
	for _, u := range unknown {
		c.Undecided(rule, fnName(fn)+"#buffer-escapes", "Message.buffer is used in a way the rule cannot classify", u.Pos())
	}
	for _, u := range uses {
		switch {
		case u.Kind == "write" && (u.Method == "Write" || u.Method == "WriteString"):
			classify(u.fr, u.Call, u.Arg, false)
		case u.Kind == "write" && u.Method == "WriteByte":
			classify(u.fr, u.Call, u.Arg, true)
		case u.Kind == "peek":
		default:
			sinks = append(sinks, sink{c14site{u.fr, u.Call}, "other"})
		}
	}
	for _, s := range d.calls(func(_ *cxFrame, call ssa.CallInstruction) bool { return calleeFn(call) == putBytes }) {
		a := s.in.(ssa.CallInstruction).Common().Args
		classify(s.fr, s.in.(ssa.CallInstruction), a[len(a)-1], false)
	}
	term, pay, all := map[c14site]bool{}, map[c14site]bool{}, map[c14site]bool{}
	nOther := 0
	for _, s := range sinks {
		all[s.c14site] = true
		switch s.kind {
		case "full":
			term[s.c14site], pay[s.c14site] = true, true
		case "nul":
			term[s.c14site] = true
		case "payload":
			pay[s.c14site] = true
		default:
			nOther++
			c.Violate(rule, fnName(fn)+"#sink", "writes bytes that are neither the NUL-truncated payload nor the single NUL terminator", s.in.Pos())
		}
	}
	if nOther == 0 {
		c.Ok(rule, fnName(fn)+"#sink", "every byte written is the truncated payload or the terminator", fn.Pos())
	}
	c.MinCount(rule, "payload sinks in "+fnName(fn), len(pay), 1)
	// every success return follows a payload and then a terminator
	c.c14mustPassReturnsDeep(rule, d, c.c14successTargets(fn), term, nil, "the write of the NUL terminator")
	okOne, okPayFirst := true, true
	for _, s := range sinks {
		if s.kind == "full" || s.kind == "nul" {
			// exactly one: nothing more is written after the terminator
			if d.reach(cxAfter(s.fr, s.in), all, nil, nil) != nil {
				okOne = false
			}
		}
		if s.kind == "nul" {
			// the terminator follows the payload
			if d.reach(cxEntry(d.top), map[c14site]bool{s.c14site: true}, pay, nil) != nil {
				okPayFirst = false
			}
		}
	}
	c.Check(okOne, rule, fnName(fn)+"#one-terminator", "nothing is written after the terminator", "bytes can be written after the NUL terminator (more than one terminator, or payload after it)", fn.Pos())
	c.Check(okPayFirst, rule, fnName(fn)+"#payload-before-terminator", "the terminator follows the payload", "the NUL terminator can be written without the payload before it", fn.Pos())
	// (3) length prefix iff encrypted
	pre := d.callsTo(encObjs...)
	c.MinCount(rule, "length-prefix writes in "+fnName(fn), len(pre), 1)
	succE, whole := d.succOf(pre)
	for _, p := range pre {
		one := map[c14site]bool{p: true}
		c.Check(d.reach(cxEntry(d.top), one, nil, encT) == nil, rule, fnName(fn)+"#prefix-only-if-encrypted", "the length prefix is written only when IsEncrypted()", "a length prefix is written on a path where IsEncrypted() is not known true", p.in.Pos())
		a := p.in.(ssa.CallInstruction).Common().Args
		v := d.num(p.fr, a[len(a)-1])
		okLen := false
		if call, ok := v.v.(*ssa.Call); ok { // len([]byte(trunc+"\x00"))
			if b, ok := call.Call.Value.(*ssa.Builtin); ok && b.Name() == "len" && isFull(v.fr, call.Call.Args[0]) {
				okLen = true
			}
		}
		if add, ok := v.v.(*ssa.BinOp); ok && add.Op == token.ADD { // len(trunc)+1
			x, y := add.X, add.Y
			if _, isC := constInt(x); isC {
				x, y = y, x
			}
			if k, isC := constInt(y); isC && k == 1 {
				if call, ok := x.(*ssa.Call); ok {
					if b, ok := call.Call.Value.(*ssa.Builtin); ok && b.Name() == "len" && isTrunc(v.fr, call.Call.Args[0]) {
						okLen = true
					}
				}
			}
		}
		c.Check(okLen, rule, fnName(fn)+"#prefix-value", "the prefix is the payload length plus the terminator", "the length prefix is not len(payload)+1", p.in.Pos())
	}
	cutE := func(fr *cxFrame, ed Edge) bool { return encF(fr, ed) || succE[fr][ed] }
	if p := d.reach(cxEntry(d.top), pay, whole, cutE); p != nil {
		c.Violate(rule, fnName(fn)+"#prefix-if-encrypted", "the payload can be written on an encrypted stream without the length prefix", fn.Pos(), c.describePath(p)...)
	} else {
		c.Ok(rule, fnName(fn)+"#prefix-if-encrypted", "every path to a payload write passes the prefix write or a not-encrypted edge", fn.Pos())
	}
}

// phiOnlyReturned: every use of phi is a Return (the phi is the function's result, not a local payload value).
func phiOnlyReturned(phi *ssa.Phi) (*ssa.Return, bool) {
	var ret *ssa.Return
	refs := phi.Referrers()
	if refs == nil {
		return nil, false
	}
	n := 0
	for _, r := range *refs {
		switch x := r.(type) {
		case *ssa.DebugRef:
		case *ssa.Return:
			ret = x
			n++
		default:
			return nil, false
		}
	}
	return ret, n > 0
}

// c14mustPassReturnsDeep is mustPassReturns over the spliced control flow: one obligation per return of the
// anchored function.
func (c *Ctx) c14mustPassReturnsDeep(rule string, d *c14deep, targets []RetPoint, cutSites map[c14site]bool, cutEdge func(*cxFrame, Edge) bool, what string) bool {
	fn := d.top.fn
	okAll := true
	grouped := map[int][]RetPoint{}
	var ords []int
	for _, t := range targets {
		o := retOrdinal(fn, t.Ret)
		if _, ok := grouped[o]; !ok {
			ords = append(ords, o)
		}
		grouped[o] = append(grouped[o], t)
	}
	sort.Ints(ords)
	for _, o := range ords {
		construct := fnName(fn) + "#return" + strconv.Itoa(o)
		pos := grouped[o][0].Ret.Pos()
		if wit := d.reachRet(cxEntry(d.top), grouped[o], cutSites, cutEdge); wit != nil {
			okAll = false
			c.Violate(rule, construct, "a path reaches this return without passing "+what, pos, c.describePath(wit)...)
		} else {
			c.Ok(rule, construct, "every path to this return passes "+what, pos)
		}
	}
	return okAll
}

func c14r4(c *Ctx) {
	const rule = "C14-R4"
	c.Doc(rule, "PutString and PutStringBytes (siblings): the payload is the parameter cut at the first NUL (bytes.IndexByte(.,0)), exactly one NUL follows it on every success path, the int32 length prefix (payload length + 1) is written iff the stream's IsEncrypted() is true; GetString, GetStringWithMaxSize and SkipString read the prefix iff IsEncrypted() is true, consume that many bytes, otherwise scan byte-wise to the NUL; both string decoders compare byte 0 with the constant BinNullChar")
	e := c.c14load(rule)
	putBytes := c.needFn(rule, "message", "(*Message).PutBytes")
	idxFn := c.c14pkgFunc(rule, "bytes", "IndexByte")
	nullC := c.needObj(rule, "message", "BinNullChar")
	if !e.ok || putBytes == nil || idxFn == nil || nullC == nil {
		return
	}
	api := c.c14discover(e)
	encObjs := make([]types.Object, 0, len(api.enc))
	for _, f := range api.enc {
		encObjs = append(encObjs, f.Object())
	}
	decObjs := make([]types.Object, 0, len(api.dec))
	for _, f := range api.dec {
		decObjs = append(decObjs, f.Object())
	}
	// ---------------- encoders
	// The string codecs are discovered, not listed: the functions of package message that consult
	// m.stream.IsEncrypted(); those that consume the buffer are decoders, the others encoders. The public
	// entry points must be such a function or delegate to one without touching the buffer themselves.
	cons := c.c14consumers(e)
	var strEnc, strDec []*ssa.Function
	for _, fn := range c.FnsOfPkg("message") {
		nInv := 0
		allInstrs(fn, func(_ *ssa.BasicBlock, _ int, in ssa.Instruction) {
			if call, ok := in.(ssa.CallInstruction); ok && call.Common().IsInvoke() && call.Common().Method == e.isEnc {
				nInv++
			}
		})
		if nInv == 0 {
			continue
		}
		if cons[fn] {
			strDec = append(strDec, fn)
		} else {
			strEnc = append(strEnc, fn)
		}
	}
	isMember := func(fn *ssa.Function, set []*ssa.Function) bool {
		for _, s := range set {
			if s == fn {
				return true
			}
		}
		return false
	}
	for _, ep := range []struct {
		name string
		set  []*ssa.Function
	}{{"(*Message).PutString", strEnc}, {"(*Message).PutStringBytes", strEnc}, {"(*Message).GetString", strDec}, {"(*Message).GetStringWithMaxSize", strDec}, {"(*Message).SkipString", strDec}} {
		fn := c.needFn(rule, "message", ep.name)
		if fn == nil {
			continue
		}
		ok := false
		for cur, d := fn, 0; cur != nil && d < 4; d++ {
			if isMember(cur, ep.set) {
				ok = true
				break
			}
			uses, unknown := e.c14bufUses(cur)
			if len(uses)+len(unknown) > 0 {
				break
			}
			_, cur, _ = c14delegate(cur, ep.set)
		}
		c.Check(ok, rule, fnName(fn)+"#is-string-codec", "is, or delegates to, a codec that consults IsEncrypted()", "this string entry point neither consults m.stream.IsEncrypted() nor delegates (single call, no own buffer access) to a function that does", fn.Pos())
	}
	var apiFns []*ssa.Function
	apiFns = append(apiFns, api.enc...)
	apiFns = append(apiFns, api.dec...)
	apiFns = append(apiFns, api.cod...)
	apiFns = append(apiFns, putBytes, c.LookupFn("message", "(*Message).FlushFrame"))
	nEnc := 0
	for _, fn := range strEnc {
		nEnc++
		c.c14stringEncoder(rule, e, c.c14deepOf(e, fn, apiFns...), idxFn, putBytes, encObjs)
	}
	c.MinCount(rule, "string encoders", nEnc, 1)

	// ---------------- decoders
	nDec := 0
	for _, fn := range strDec {
		nDec++
		c.c14stringDecoder(rule, e, c.c14deepOf(e, fn, apiFns...), cons, decObjs, nullC)
	}
	c.MinCount(rule, "string decoders", nDec, 1)
}

// c14stringDecoder decides one string decoder (the function with the unexported helpers it calls spliced in).
func (c *Ctx) c14stringDecoder(rule string, e *c14env, d *c14deep, cons map[*ssa.Function]bool, decObjs []types.Object, nullC types.Object) {
	fn := d.top.fn
	nullV, _ := constant.Int64Val(constant.ToInt(c14constVal(nullC)))
	encSites := d.calls(func(fr *cxFrame, call ssa.CallInstruction) bool {
		if !call.Common().IsInvoke() || call.Common().Method != e.isEnc {
			return false
		}
		base, ok := c14loadOf(call.Common().Value, e.msgStrm)
		return ok && d.isRecv(fr, base)
	})
	if len(encSites) != 1 {
		c.Violate(rule, fnName(fn)+"#IsEncrypted", "does not consult m.stream.IsEncrypted() exactly once", fn.Pos())
		return
	}
	ec := encSites[0]
	encT, encF := d.boolEdgesOf(ec.fr, ec.in.(ssa.Value))
	onlyEnc := func(s c14site) bool { // reached only when IsEncrypted() is known true
		return d.reach(cxEntry(d.top), map[c14site]bool{s: true}, nil, encT) == nil
	}
	// prefix reads (found before the consumers that are handed the announced length are made units)
	pre := d.callsTo(decObjs...)
	if !c.Check(len(pre) >= 1, rule, fnName(fn)+"#reads-prefix", "reads a length prefix", "never reads the length prefix", fn.Pos()) {
		return
	}
	var preVals []cxVal
	for _, p := range pre {
		c.Check(onlyEnc(p), rule, fnName(fn)+"#prefix-only-if-encrypted", "the prefix is read only when IsEncrypted()", "a length prefix is read on a path where IsEncrypted() is not known true", p.in.Pos())
		if v := extractN(p.in.(ssa.Value), 0); v != nil {
			preVals = append(preVals, cxVal{p.fr, v})
		}
	}
	mentionsPre := func(fr *cxFrame, v ssa.Value) bool {
		return v != nil && d.mentionsDeep(fr, v, func(f *cxFrame, x ssa.Value) bool {
			for _, pv := range preVals {
				if f == pv.fr && x == pv.v {
					return true
				}
			}
			return false
		})
	}
	// a consumer of the package that is handed the announced length stays a unit (discard, GetBytes)
	d.frames = nil
	d.unitCall = func(fr *cxFrame, call ssa.CallInstruction) bool {
		g := calleeFn(call)
		if g == nil || !cons[g] {
			return false
		}
		a := call.Common().Args
		if len(a) == 0 {
			return false
		}
		// the announced length itself (a count), not a buffer of that size
		if b, ok := a[len(a)-1].Type().Underlying().(*types.Basic); !ok || b.Info()&types.IsInteger == 0 {
			return false
		}
		return mentionsPre(fr, a[len(a)-1])
	}
	succE, whole := d.succOf(pre)
	cutE := func(fr *cxFrame, ed Edge) bool { return encF(fr, ed) || succE[fr][ed] }
	if p := d.reachRet(cxAfter(ec.fr, ec.in), c.c14successTargets(fn), whole, cutE); p != nil {
		c.Violate(rule, fnName(fn)+"#prefix-if-encrypted", "a string can be decoded on an encrypted stream without reading the length prefix", fn.Pos(), c.describePath(p)...)
	} else {
		c.Ok(rule, fnName(fn)+"#prefix-if-encrypted", "after IsEncrypted() every success return passes the prefix read or a not-encrypted edge", fn.Pos())
	}
	// the encrypted side consumes the announced number of bytes; the plain side scans to the NUL
	uses, _ := d.uses()
	bulk, scan := false, false
	var filled []cxVal // the buffers the announced bytes are read into
	for _, u := range uses {
		if u.Kind != "consume" {
			continue
		}
		site := c14site{u.fr, u.Call}
		switch u.Method {
		case "io.ReadFull":
			arg := d.num(u.fr, u.Arg)
			root, _, lenV, isConst, full := c14sliceLen(arg.v)
			if full && !isConst && mentionsPre(arg.fr, lenV) && onlyEnc(site) {
				bulk = true
				filled = append(filled, cxVal{arg.fr, root})
			}
		case "ReadByte":
			b := extractN(u.Call.Value(), 0)
			if b == nil || onlyEnc(site) {
				continue
			}
			for _, r := range *b.Referrers() {
				if cmp, ok := r.(*ssa.BinOp); ok && (cmp.Op == token.EQL || cmp.Op == token.NEQ) {
					if k, ok := constInt(cmp.Y); ok && k == 0 {
						scan = true
					}
				}
			}
		}
	}
	// ... or hands the announced length to another consumer of the package (discard, GetBytes)
	for _, s := range d.calls(func(fr *cxFrame, call ssa.CallInstruction) bool { return d.unitCall(fr, call) }) {
		if onlyEnc(s) {
			bulk = true
		}
	}
	c.Check(bulk, rule, fnName(fn)+"#consumes-announced-length", "on an encrypted stream consumes the number of bytes the prefix announces", "on an encrypted stream the bytes consumed do not depend on the length prefix", fn.Pos())
	c.Check(scan, rule, fnName(fn)+"#scans-to-NUL", "on a plain stream reads byte-wise up to the NUL", "on a plain stream no byte read is compared with the NUL terminator", fn.Pos())
	// null marker
	if r := fn.Signature.Results(); r.Len() == 0 || !types.Identical(r.At(0).Type(), types.Typ[types.String]) {
		return // does not return the string (skips / matches it): the marker is irrelevant
	}
	inFilled := func(fr *cxFrame, v ssa.Value) bool {
		r := fr.resolve(memRoot(v))
		root := memRoot(r.v)
		for _, f := range filled {
			if r.fr == f.fr && root == f.v {
				return true
			}
		}
		return false
	}
	okMarker, namesMarker := false, false
	okStrip := false
	for _, fr := range d.walk() {
		if c.c14astUses(fr.fn, nullC) >= 1 {
			namesMarker = true
		}
		allInstrs(fr.fn, func(_ *ssa.BasicBlock, _ int, in ssa.Instruction) {
			cmp, ok := in.(*ssa.BinOp)
			if !ok || cmp.Op != token.EQL {
				return
			}
			k, isC := constInt(cmp.Y)
			ld, isLd := cmp.X.(*ssa.UnOp)
			if !isC || k != nullV || !isLd || ld.Op != token.MUL {
				return
			}
			ia, ok := ld.X.(*ssa.IndexAddr)
			if !ok {
				return
			}
			if i, ok := constInt(ia.Index); !ok || i != 0 {
				return
			}
			if inFilled(fr, ia.X) {
				okMarker = true
			}
		})
		// the single trailing NUL the encoder appended is stripped: if data[len-1] == 0 { data = data[:len-1] }
		isLenMinus1 := func(v ssa.Value) bool {
			sub, ok := v.(*ssa.BinOp)
			if !ok || sub.Op != token.SUB {
				return false
			}
			if k, ok := constInt(sub.Y); !ok || k != 1 {
				return false
			}
			l, ok := sub.X.(*ssa.Call)
			if !ok {
				return false
			}
			b, ok := l.Call.Value.(*ssa.Builtin)
			return ok && b.Name() == "len" && inFilled(fr, l.Call.Args[0])
		}
		var lastIsNUL []Edge
		for _, b := range fr.fn.Blocks {
			ifi := blockIf(b)
			if ifi == nil {
				continue
			}
			a := condAtom(ifi.Cond)
			if a.Op != token.EQL && a.Op != token.NEQ {
				continue
			}
			k, isC := constInt(a.Y)
			ld, isLd := a.X.(*ssa.UnOp)
			if !isC || k != 0 || !isLd || ld.Op != token.MUL {
				continue
			}
			ia, ok := ld.X.(*ssa.IndexAddr)
			if !ok || !inFilled(fr, ia.X) || !isLenMinus1(ia.Index) {
				continue
			}
			eq := a.Op == token.EQL
			if a.Neg {
				eq = !eq
			}
			if eq {
				lastIsNUL = append(lastIsNUL, Edge{b, 0})
			} else {
				lastIsNUL = append(lastIsNUL, Edge{b, 1})
			}
		}
		allInstrs(fr.fn, func(_ *ssa.BasicBlock, _ int, in ssa.Instruction) {
			sl, ok := in.(*ssa.Slice)
			if !ok || sl.Low != nil || sl.High == nil || !inFilled(fr, sl.X) || !isLenMinus1(sl.High) || !c14dominatedByAny(fr.fn, sl, lastIsNUL) {
				return
			}
			for _, t := range c.c14successTargets(fn) {
				if d.mentionsDeep(d.top, t.Ret.Results[0], func(f *cxFrame, x ssa.Value) bool { return f == fr && x == ssa.Value(sl) }) {
					okStrip = true
				}
			}
		})
	}
	c.Check(okStrip, rule, fnName(fn)+"#strips-terminator", "on an encrypted stream the trailing NUL is removed from the returned string", "on an encrypted stream the received bytes are returned without removing the trailing NUL terminator the encoder appended", fn.Pos())
	c.Check(okMarker && namesMarker, rule, fnName(fn)+"#null-marker", "byte 0 of the received string is compared with BinNullChar", "the first byte of the received string is not compared with the constant BinNullChar", fn.Pos())
}

// ---------------------------------------------------------------------------
// C14-R5: refill before read.
func c14r5(c *Ctx) {
	const rule = "C14-R5"
	c.Doc(rule, "every consuming read of Message.buffer in package message (ReadByte, io.ReadFull, Next, ...: enumerated from the uses of the field, not listed) is preceded, on every path from the function entry and from every earlier consuming operation, by a nil-error ensureData(ctx, k) on the same message with k >= the bytes read (constant, or the same SSA value), or reads min(buffer.Len(), n) bytes after ensureData(ctx, >=1); Reset happens only on the encode side or after end-of-message; ensureData returns nil only when buffer.Len() >= needed and appends every frame it reads")
	e := c.c14load(rule)
	if !e.ok {
		return
	}
	cons := c.c14consumers(e)
	encC := c.needObj(rule, "message", "CodingEncode")
	nReads, nResets := 0, 0
	for _, fn := range c.FnsOfPkg("message") {
		uses, unknown := e.c14bufUses(fn)
		for _, u := range unknown {
			c.Undecided(rule, fnName(fn)+"#buffer-escapes", "Message.buffer is used in a way the rule cannot classify (passed on, stored or compared)", u.Pos())
		}
		// consuming points of fn: direct reads and calls of consumers
		var points []ssa.Instruction
		for _, u := range uses {
			if u.Kind == "consume" {
				points = append(points, u.Call)
			}
		}
		allInstrs(fn, func(_ *ssa.BasicBlock, _ int, in ssa.Instruction) {
			if call, ok := in.(ssa.CallInstruction); ok {
				if g := calleeFn(call); g != nil && cons[g] {
					points = append(points, in)
				}
			}
		})
		ordinal := map[string]int{}
		for _, u := range uses {
			switch u.Kind {
			case "consume":
				nReads++
				ordinal[u.Method]++
				key := fnName(fn) + "#" + u.Method + "#" + c14ord(ordinal[u.Method])
				c.c14checkRead(rule, key, e, fn, u, uses, points)
			case "reset":
				nResets++
				key := fnName(fn) + "#Reset"
				var encEdges []Edge
				if encC != nil {
					ev, _ := constant.Int64Val(c14constVal(encC))
					encEdges = e.c14dirEdges(fn, ev)
				}
				if c14dominatedByAny(fn, u.Call, encEdges) || (encC != nil && c.c14dirDominates(e, fn, u.Call, func() int64 { v, _ := constant.Int64Val(c14constVal(encC)); return v }())) {
					c.Ok(rule, key, "encode side (direction == CodingEncode): the buffer holds outgoing bytes", u.Call.Pos())
					continue
				}
				_, eomOn := fieldCondEdges(fn, e.msgEOM)
				cuts := newCuts().AddEdges(eomOn...).AddEdges(c14eofEdges(fn)...)
				c.mustPassInstr(rule, key, fn, u.Call, cuts, "an edge on which the message is at EOM (isEOM true, or ensureData returned io.EOF)")
			}
		}
	}
	// at least the fixed-width read of GetInt and one byte-wise read; at least one Reset (FlushFrame)
	c.MinCount(rule, "consuming reads of Message.buffer", nReads, 2)
	c.MinCount(rule, "Reset sites of Message.buffer", nResets, 1)

	// --- ensureData itself (its tests and its per-frame steps may sit in unexported helpers it calls)
	c.c14ensureData(rule, e)
}

// c14ensureData decides the two obligations on ensureData: it returns nil only behind an edge on which
// m.buffer.Len() >= needed, and every frame ReadFrame hands out is appended to the buffer and its EOM flag
// recorded before the next frame is read or the function returns. Tests are followed into boolean helpers
// (c.cxFactCuts); the frame steps are checked in the function that calls ReadFrame and, where that function
// hands the frame (or its flag) back to its caller, in the caller.
func (c *Ctx) c14ensureData(rule string, e *c14env) {
	en := e.ensure
	top := cxTop(en)
	needed := ssa.Value(c14lastParam(en))
	recv := ssa.Value(en.Params[0])
	isRecv := func(fr *cxFrame, base ssa.Value) bool {
		r := fr.resolve(base)
		return r.fr == top && r.v == recv
	}
	isLen := func(fr *cxFrame, v ssa.Value) bool { // m.buffer.Len() of ensureData's own message
		call, ok := v.(*ssa.Call)
		if !ok {
			return false
		}
		o := calleeObj(call)
		if o == nil || o.Name() != "Len" || o.Pkg() == nil || o.Pkg().Path() != "bytes" || len(call.Call.Args) != 1 {
			return false
		}
		base, ok := c14loadOf(call.Call.Args[0], e.msgBuf)
		return ok && isRecv(fr, base)
	}
	isNeeded := func(fr *cxFrame, v ssa.Value) bool {
		r := fr.resolve(v)
		return r.fr == top && r.v == needed
	}
	nTests := 0
	atom := func(fr *cxFrame, a Atom) (onTrue, onFalse bool) {
		var enoughOnTrue bool
		switch {
		case a.X == nil || a.Y == nil:
			return false, false
		case isLen(fr, a.X) && isNeeded(fr, a.Y) && a.Op == token.LSS, isLen(fr, a.Y) && isNeeded(fr, a.X) && a.Op == token.GTR:
			enoughOnTrue = false
		case isLen(fr, a.X) && isNeeded(fr, a.Y) && a.Op == token.GEQ, isLen(fr, a.Y) && isNeeded(fr, a.X) && a.Op == token.LEQ:
			enoughOnTrue = true
		default:
			return false, false
		}
		nTests++
		if a.Neg {
			enoughOnTrue = !enoughOnTrue
		}
		return enoughOnTrue, !enoughOnTrue
	}
	cuts := c.cxFactCuts(top, atom, cxDepth)
	c.MinCount(rule, "buffer.Len() < needed tests in ensureData", len(cuts.Edges)+len(cuts.Via), 1)
	c.mustPassReturns(rule, en, c.c14successTargets(en), cuts, "an edge on which buffer.Len() >= needed")

	// the ReadFrame call, in ensureData or in a helper it calls
	type site struct {
		fr   *cxFrame
		call ssa.CallInstruction
	}
	var rf []site
	cxCallsDeep(top, nil, func(fr *cxFrame, call ssa.CallInstruction) {
		if call.Common().IsInvoke() && call.Common().Method == e.readFrm {
			rf = append(rf, site{fr, call})
		}
	})
	if !c.Check(len(rf) == 1, rule, fnName(en)+"#ReadFrame", "one ReadFrame call", "ensureData (with the helpers it calls) does not contain exactly one ReadFrame call", en.Pos()) {
		return
	}
	fr, call := rf[0].fr, rf[0].call
	pos := call.Pos()
	data, eom := extractN(call.Value(), 0), extractN(call.Value(), 1)
	succ, _, checked := callErrEdges(fr.fn, call.Value())
	if !checked || data == nil || eom == nil {
		c.Violate(rule, fnName(en)+"#ReadFrame-results", "ensureData ignores the error, the data or the EOM flag of ReadFrame", pos)
		return
	}
	appendDone, eomDone := false, false
	for level := 0; level <= cxDepth; level++ {
		fn := fr.fn
		uses, _ := e.c14bufUses(fn)
		var appendW, eomStore []ssa.Instruction
		for _, u := range uses {
			if u.Kind == "write" && u.Method == "Write" && data != nil && u.Arg == data && isRecv(fr, u.Base) {
				appendW = append(appendW, u.Call)
			}
		}
		allInstrs(fn, func(_ *ssa.BasicBlock, _ int, in ssa.Instruction) {
			if st, ok := in.(*ssa.Store); ok && eom != nil && st.Val == eom {
				if fa, ok := st.Addr.(*ssa.FieldAddr); ok && fieldOfAddr(fa) == e.msgEOM && isRecv(fr, fa.X) {
					eomStore = append(eomStore, st)
				}
			}
		})
		// edges on which the frame is known empty (len(data) == 0): nothing to append
		var empty []Edge
		for _, b := range fn.Blocks {
			if root, z, _, ok := zeroEdges(b); ok {
				if lc, ok := root.(*ssa.Call); ok {
					if bi, ok := lc.Call.Value.(*ssa.Builtin); ok && bi.Name() == "len" && data != nil && lc.Call.Args[0] == data {
						empty = append(empty, z)
					}
				}
			}
		}
		// check: from the nil-error edges of the frame source no path reaches the next frame read or a return
		// without passing the step; a return that hands the value itself to the caller defers the step to it.
		check := func(val ssa.Value, cuts *Cuts) (wit []*ssa.BasicBlock, upIdx int) {
			upIdx = -1
			targets := []Target{{Instr: call}}
			rets := map[ssa.Instruction]*ssa.Return{}
			for _, t := range c.returnsOf(fn) {
				targets = append(targets, t.Target())
				rets[t.Ret] = t.Ret
			}
			for _, se := range succ {
				if len(se.To().Instrs) == 0 {
					continue
				}
				for _, t := range targets {
					p := findPath(Point{se.To(), 0}, t, cuts)
					if p == nil {
						continue
					}
					if ret := rets[t.Instr]; ret != nil && fr.up != nil && val != nil {
						idx := -1
						for i, r := range ret.Results {
							if r == val {
								idx = i
							}
						}
						if idx >= 0 && (upIdx < 0 || upIdx == idx) {
							upIdx = idx
							continue
						}
					}
					return p, -1
				}
			}
			return nil, upIdx
		}
		dataUp, eomUp := -1, -1
		if !appendDone {
			wit, up := check(data, newCuts().AddInstrs(appendW...).AddEdges(empty...))
			switch {
			case wit != nil:
				c.Violate(rule, fnName(en)+"#appends-frame", "a frame returned by ReadFrame can be dropped without being appended to the buffer", pos, c.describePath(wit)...)
				return
			case up >= 0:
				dataUp = up
			default:
				appendDone = true
				c.Ok(rule, fnName(en)+"#appends-frame", "every frame read is appended to the buffer before the next test", pos)
			}
		}
		if !eomDone {
			wit, up := check(eom, newCuts().AddInstrs(eomStore...))
			switch {
			case wit != nil:
				c.Violate(rule, fnName(en)+"#records-EOM", "the EOM flag returned by ReadFrame is not stored into isEOM on some path", pos, c.describePath(wit)...)
				return
			case up >= 0:
				eomUp = up
			default:
				eomDone = true
				c.Ok(rule, fnName(en)+"#records-EOM", "the EOM flag of every frame read is recorded", pos)
			}
		}
		if appendDone && eomDone {
			return
		}
		// continue in the caller with the values the helper handed back
		if fr.up == nil || fr.call == nil {
			break
		}
		call, fr = fr.call, fr.up
		data, eom = nil, nil
		if dataUp >= 0 {
			data = extractN(call.Value(), dataUp)
		}
		if eomUp >= 0 {
			eom = extractN(call.Value(), eomUp)
		}
		succ, _, checked = callErrEdges(fr.fn, call.Value())
		if !checked || (!appendDone && data == nil) || (!eomDone && eom == nil) {
			c.Violate(rule, fnName(en)+"#ReadFrame-results", "the frame (or its EOM flag) handed back by "+fnName(calleeFn(call))+" is ignored by its caller", call.Pos())
			return
		}
	}
	c.Undecided(rule, fnName(en)+"#ReadFrame-results", "cannot follow where the frame read by ReadFrame is appended and its EOM flag recorded", pos)
}

func c14ord(n int) string {
	return string(rune('0' + n%10))
}

// c14eofEdges: edges on which an error value is known to equal io.EOF.
func c14eofEdges(fn *ssa.Function) []Edge {
	var out []Edge
	isEOF := func(v ssa.Value) bool {
		ld, ok := v.(*ssa.UnOp)
		if !ok || ld.Op != token.MUL {
			return false
		}
		g, ok := ld.X.(*ssa.Global)
		return ok && g.Pkg != nil && g.Pkg.Pkg.Path() == "io" && g.Name() == "EOF"
	}
	for _, b := range fn.Blocks {
		ifi := blockIf(b)
		if ifi == nil {
			continue
		}
		a := condAtom(ifi.Cond)
		if (a.Op != token.EQL && a.Op != token.NEQ) || !(isEOF(a.X) || isEOF(a.Y)) {
			continue
		}
		eq := a.Op == token.EQL
		if a.Neg {
			eq = !eq
		}
		if eq {
			out = append(out, Edge{b, 0})
		} else {
			out = append(out, Edge{b, 1})
		}
	}
	return out
}

// c14checkRead decides one consuming read u of fn.
func (c *Ctx) c14checkRead(rule, key string, e *c14env, fn *ssa.Function, u c14bufUse, uses []c14bufUse, points []ssa.Instruction) {
	var needConst int64 = -1
	var needVal, needLenOf ssa.Value
	bounded := false
	switch u.Method {
	case "ReadByte":
		needConst = 1
	case "io.ReadFull", "Read":
		_, n, lenV, isConst, full := c14sliceLen(u.Arg)
		if !full {
			// a read-exactly helper: the buffer is the helper's own slice parameter and ensureData is asked
			// for len() of that very parameter
			if p, isParam := stripConv(u.Arg).(*ssa.Parameter); isParam {
				if _, isSlice := p.Type().Underlying().(*types.Slice); isSlice {
					needLenOf = p
					break
				}
			}
			c.Undecided(rule, key, "cannot determine how many bytes this read consumes", u.Call.Pos())
			return
		}
		if isConst {
			needConst = n
		} else {
			needVal = lenV
		}
	case "Next":
		if k, ok := constInt(u.Arg); ok {
			needConst = k
		} else if c14minOfLen(fn, e, u, uses) {
			bounded = true
			needConst = 1
		} else {
			needVal = c14stripNum(u.Arg)
		}
	default:
		c.Undecided(rule, key, "consuming bytes.Buffer method "+u.Method+" is not modelled", u.Call.Pos())
		return
	}
	cuts := newCuts()
	nAdequate := 0
	for _, call := range callsIn(fn, e.ensure.Object()) {
		a := call.Common().Args // m, ctx, needed
		if len(a) != 3 || a[0] != u.Base {
			continue
		}
		adequate := false
		if k, ok := constInt(a[2]); ok {
			adequate = needConst >= 0 && k >= needConst
		} else if needVal != nil {
			adequate = c14stripNum(a[2]) == needVal
		} else if needLenOf != nil {
			if lc, ok := c14stripNum(a[2]).(*ssa.Call); ok {
				if b, ok := lc.Call.Value.(*ssa.Builtin); ok && b.Name() == "len" && len(lc.Call.Args) == 1 && stripConv(lc.Call.Args[0]) == needLenOf {
					adequate = true
				}
			}
		}
		if !adequate {
			continue
		}
		if succ, _, checked := callErrEdges(fn, call.Value()); checked {
			cuts.AddEdges(succ...)
			nAdequate++
		}
	}
	what := "a nil-error ensureData covering the bytes read"
	if nAdequate == 0 {
		c.Violate(rule, key, "no ensureData call in "+fnName(fn)+" covers this read (same message, k >= bytes read, error tested)", u.Call.Pos())
		return
	}
	starts := []Point{entryPoint(fn)}
	for _, p := range points {
		starts = append(starts, after(p))
	}
	for _, s := range starts {
		if p := findPath(s, Target{Instr: u.Call}, cuts); p != nil {
			from := "the function entry"
			if s != entryPoint(fn) {
				from = "an earlier consuming operation"
			}
			c.Violate(rule, key, "reachable from "+from+" without passing "+what+": a value cut by a frame boundary here is read short", u.Call.Pos(), c.describePath(p)...)
			return
		}
	}
	msg := "every path to it passes " + what
	if bounded {
		msg += "; the amount is min(buffer.Len(), n)"
	}
	c.Ok(rule, key, msg, u.Call.Pos())
}

// c14minOfLen recognises the discard idiom: the amount handed to Next is min(m.buffer.Len(), x), with
// no consuming operation between the Len() and the Next.
func c14minOfLen(fn *ssa.Function, e *c14env, u c14bufUse, uses []c14bufUse) bool {
	isLen := func(v ssa.Value) ssa.CallInstruction {
		for _, o := range uses {
			if o.Method == "Len" && o.Call.Value() == v && o.Base == u.Base {
				return o.Call
			}
		}
		return nil
	}
	var lenCall ssa.CallInstruction
	switch x := u.Arg.(type) {
	case *ssa.Call:
		if b, ok := x.Call.Value.(*ssa.Builtin); ok && b.Name() == "min" {
			for _, a := range x.Call.Args {
				if lc := isLen(a); lc != nil {
					lenCall = lc
				}
			}
		}
	case *ssa.Phi:
		if len(x.Edges) != 2 {
			return false
		}
		li := -1
		for i, ed := range x.Edges {
			if isLen(ed) != nil {
				li = i
			}
		}
		if li < 0 {
			return false
		}
		l, other := x.Edges[li], x.Edges[1-li]
		// the edge carrying `other` must come from the side where Len() > other, the edge carrying Len()
		// from the side where Len() <= other
		var gt, le []Edge
		for _, b := range fn.Blocks {
			ifi := blockIf(b)
			if ifi == nil {
				continue
			}
			a := condAtom(ifi.Cond)
			var gtOnTrue bool
			switch {
			case a.X == l && a.Y == other && a.Op == token.GTR, a.X == other && a.Y == l && a.Op == token.LSS:
				gtOnTrue = true
			case a.X == l && a.Y == other && a.Op == token.LEQ, a.X == other && a.Y == l && a.Op == token.GEQ:
				gtOnTrue = false
			default:
				continue
			}
			if a.Neg {
				gtOnTrue = !gtOnTrue
			}
			if gtOnTrue {
				gt, le = append(gt, Edge{b, 0}), append(le, Edge{b, 1})
			} else {
				gt, le = append(gt, Edge{b, 1}), append(le, Edge{b, 0})
			}
		}
		if len(gt) == 0 {
			return false
		}
		// arriving at the phi through the predecessor that carries `other` requires a gt edge, and vice versa
		pb := x.Block()
		viaOther, viaLen := pb.Preds[1-li], pb.Preds[li]
		okOther, okLen := false, false
		for _, ed := range gt {
			if ed.To() == viaOther || (ed.From == viaOther && ed.To() == pb) {
				okOther = true
			}
		}
		for _, ed := range le {
			if ed.To() == viaLen || (ed.From == viaLen && ed.To() == pb) {
				okLen = true
			}
		}
		if !okOther || !okLen {
			return false
		}
		lenCall = isLen(l)
	}
	if lenCall == nil {
		return false
	}
	// nothing consumes between the Len() and the Next
	for _, o := range uses {
		if o.Kind == "consume" && o.Call != u.Call {
			if findPath(after(lenCall), Target{Instr: o.Call}, newCuts().AddInstrs(u.Call)) != nil {
				return false
			}
		}
	}
	return true
}
