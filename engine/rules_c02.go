package main

import (
	"go/token"
	"go/types"
	"sort"

	"golang.org/x/tools/go/ssa"
)

func init() { register("C02", c02r1, c02r2, c02r3, c02r4) }

// aeadMethod resolves crypto/cipher.AEAD.<name>.
func (c *Ctx) aeadMethod(rule, name string) *types.Func {
	tp := c.PkgTypes("crypto/cipher")
	if tp == nil {
		c.AnchorMissing(rule, "crypto/cipher")
		return nil
	}
	obj, _, _ := types.LookupFieldOrMethod(tp.Scope().Lookup("AEAD").Type(), false, tp, name)
	f, _ := obj.(*types.Func)
	if f == nil {
		c.AnchorMissing(rule, "crypto/cipher.AEAD."+name)
	}
	return f
}

// cryptoOffEdges: edges on which the stream is known not to be encrypting (gcm == nil or !encrypted).
func (c *Ctx) cryptoOffEdges(rule string, fn *ssa.Function) []Edge {
	gcm := c.needField(rule, "stream", "Stream", "gcm")
	enc := c.needField(rule, "stream", "Stream", "encrypted")
	if gcm == nil || enc == nil {
		return nil
	}
	off1, _ := fieldCondEdges(fn, gcm)
	off2, _ := fieldCondEdges(fn, enc)
	out := append(off1, off2...)
	// the same fact established through a boolean helper ("if s.cipherActive()") or a local boolean
	atom := func(_ *cxFrame, a Atom) (onTrue, onFalse bool) {
		switch a.Op {
		case token.ILLEGAL:
			if a.X != nil && readsField(a.X, enc) {
				if a.Neg {
					return true, false
				}
				return false, true
			}
		case token.EQL, token.NEQ:
			var other ssa.Value
			if readsField(a.X, gcm) {
				other = a.Y
			} else if readsField(a.Y, gcm) {
				other = a.X
			}
			if other == nil || !isNilConst(other) {
				return false, false
			}
			eqNil := a.Op == token.EQL
			if a.Neg {
				eqNil = !eqNil
			}
			return eqNil, !eqNil
		}
		return false, false
	}
	have := map[Edge]bool{}
	for _, e := range out {
		have[e] = true
	}
	for e := range c.cxFactCuts(cxTop(fn), atom, 3).Edges {
		if !have[e] {
			out = append(out, e)
		}
	}
	sort.Slice(out, func(i, j int) bool {
		if out[i].From.Index != out[j].From.Index {
			return out[i].From.Index < out[j].From.Index
		}
		return out[i].Succ < out[j].Succ
	})
	return out
}

// C02-R1: no success return of the receivers without AEAD verification or a crypto-off edge.
func c02r1(c *Ctx) {
	const rule = "C02-R1"
	c.Doc(rule, "ReceiveFrame, ReceiveFrameWithEnd, decryptDataWithAAD: every path to a success return passes a nil-error decryptDataWithAAD / cipher.AEAD.Open call - made directly or inside a same-module helper all of whose success paths make it - or an edge on which gcm==nil or !encrypted (T-MPT on edges; zero-ness-infeasible edges pruned, in helpers from the facts every call site establishes)")
	dec := c.needFn(rule, "stream", "(*Stream).decryptDataWithAAD")
	open := c.aeadMethod(rule, "Open")
	if dec == nil || open == nil {
		return
	}
	n := 0
	for _, name := range []string{"(*Stream).ReceiveFrame", "(*Stream).ReceiveFrameWithEnd", "(*Stream).decryptDataWithAAD"} {
		fn := c.needFn(rule, "stream", name)
		if fn == nil {
			continue
		}
		var verifier types.Object = dec.Object()
		if fn == dec {
			verifier = open
		}
		hit := callHit(verifier)
		extra := func(f *ssa.Function) []Edge {
			es := c.cryptoOffEdges(rule, f)
			for e, why := range infeasibleEdges(f) {
				es = append(es, e)
				c.Note("%s: pruned infeasible edge in %s at %s: %s", rule, fnName(f), c.Pos(e.From.Instrs[len(e.From.Instrs)-1].Pos()), why)
			}
			if f != fn {
				es = append(es, c.zeroLenParamEdges(f)...)
			}
			return es
		}
		for _, cs := range callsIn(fn, verifier) {
			if _, _, checked := callErrEdges(fn, cs.Value()); !checked {
				c.Violate(rule, fnName(fn)+"#call:"+verifier.Name(), "the error result of "+verifier.Name()+" is never tested", cs.Pos())
			}
		}
		if a, m := c.deepSites(fn, hit); len(a)+len(m) == 0 {
			c.Violate(rule, fnName(fn)+"#call:"+verifier.Name(), "no call to "+verifier.Name()+" in "+fnName(fn)+" (nor in a helper it calls on every success path)", fn.Pos())
		}
		cuts := c.satisfyingCuts(fn, hit, extra, InlineDepth, nil)
		tg := c.successTargets(fn)
		n += len(tg)
		c.mustPassReturns(rule, fn, tg, cuts, "AEAD verification ("+verifier.Name()+" with nil error) or a crypto-off edge")
	}
	c.MinCount(rule, "success returns", n, 3)
}

// C02-R2: only the two frame receivers read the connection.
func c02r2(c *Ctx) {
	const rule = "C02-R2"
	c.Doc(rule, "who-may-call: readWithContext is called only by ReceiveFrame/ReceiveFrameWithEnd; Stream.reader is read only in readWithContext and written only by NewStream/SetConnection; no Read is invoked on Stream.conn")
	rwc := c.needFn(rule, "stream", "(*Stream).readWithContext")
	rf := c.needFn(rule, "stream", "(*Stream).ReceiveFrame")
	rfe := c.needFn(rule, "stream", "(*Stream).ReceiveFrameWithEnd")
	ns := c.needFn(rule, "stream", "NewStream")
	sc := c.needFn(rule, "stream", "(*Stream).SetConnection")
	reader := c.needField(rule, "stream", "Stream", "reader")
	conn := c.needField(rule, "stream", "Stream", "conn")
	if rwc == nil || rf == nil || rfe == nil || reader == nil || conn == nil {
		return
	}
	var fns []*ssa.Function
	poss := map[*ssa.Function]token.Pos{}
	for _, cs := range c.callSites(rwc.Object()) {
		fns = append(fns, cs.Fn)
		poss[cs.Fn] = cs.Call.Pos()
	}
	c.whoMayDeep(rule, "call readWithContext", fns, poss, fnSet(rf, rfe))
	c.MinCount(rule, "readWithContext call sites", len(fns), 1)
	var rd, wr []*ssa.Function
	for _, a := range c.fieldAccesses(reader) {
		poss[a.Fn] = a.Instr.Pos()
		if a.Write {
			wr = append(wr, a.Fn)
		}
		if a.Read {
			rd = append(rd, a.Fn)
		}
	}
	c.whoMayDeep(rule, "read Stream.reader", rd, poss, fnSet(rwc))
	c.whoMayDeep(rule, "write Stream.reader", wr, poss, fnSet(ns, sc))
	// no Read on s.conn anywhere in the module
	nconn := 0
	for _, a := range c.fieldAccesses(conn) {
		fa, ok := a.Instr.(*ssa.FieldAddr)
		if !ok {
			continue
		}
		for _, r := range *fa.Referrers() {
			ld, ok := r.(*ssa.UnOp)
			if !ok {
				continue
			}
			nconn++
			for _, u := range *ld.Referrers() {
				if call, ok := u.(ssa.CallInstruction); ok && call.Common().IsInvoke() && call.Common().Value == ld {
					m := call.Common().Method.Name()
					if m == "Read" || m == "Write" {
						c.Violate(rule, "conn."+m+"@"+fnName(topFn(a.Fn)), "direct "+m+" on Stream.conn bypasses the frame receivers", call.Pos())
					}
				}
			}
		}
	}
	c.Ok(rule, "conn-direct-io", "no Read/Write is invoked on a value loaded from Stream.conn", token.NoPos)
	c.MinCount(rule, "loads of Stream.conn inspected", nconn, 1)
}

// C02-R3: position and header binding of the AEAD call.
func c02r3(c *Ctx) {
	const rule = "C02-R3"
	c.Doc(rule, "in decryptDataWithAAD the nonce of Open depends on decryptCounter and decryptIV, the AAD depends on the frameHeader parameter on every branch, decryptCounter is stored only after a nil-error Open, and is written nowhere else but the key installers; receivers pass the header slice read from the wire")
	dec := c.needFn(rule, "stream", "(*Stream).decryptDataWithAAD")
	open := c.aeadMethod(rule, "Open")
	ctr := c.needField(rule, "stream", "Stream", "decryptCounter")
	iv := c.needField(rule, "stream", "Stream", "decryptIV")
	if dec == nil || open == nil || ctr == nil || iv == nil {
		return
	}
	calls := callsIn(dec, open)
	c.MinCount(rule, "Open calls", len(calls), 1)
	var hdr ssa.Value
	for _, p := range dec.Params {
		if p.Name() == "frameHeader" {
			hdr = p
		}
	}
	if hdr == nil && len(dec.Params) == 3 {
		hdr = dec.Params[2]
	}
	for _, cs := range calls {
		args := cs.Common().Args // dst, nonce, ciphertext, aad
		if len(args) != 4 {
			c.Undecided(rule, "Open#args", "unexpected Open signature", cs.Pos())
			continue
		}
		c.Check(c.mustDependDeep(dec, args[1], isFieldAccess(ctr)), rule, "Open#nonce<-decryptCounter", "nonce depends on decryptCounter", "nonce of Open does not depend on decryptCounter: frames are not bound to their position", cs.Pos())
		c.Check(c.mustDependDeep(dec, args[1], isFieldAccess(iv)), rule, "Open#nonce<-decryptIV", "nonce depends on decryptIV", "nonce of Open does not depend on decryptIV", cs.Pos())
		c.Check(hdr != nil && c.mustDependDeep(dec, args[3], func(v ssa.Value) bool { return v == hdr }), rule, "Open#aad<-frameHeader", "AAD depends on the frame header on every branch", "on some branch the AAD of Open does not include the frame header", cs.Pos())
		c.Check(c.mustDependDeep(dec, args[2], func(v ssa.Value) bool { return len(dec.Params) > 1 && v == dec.Params[1] }), rule, "Open#ciphertext<-data", "ciphertext is the received data", "ciphertext passed to Open is not derived from the received data", cs.Pos())
		// every advance of decryptCounter (a store here, or a helper that stores) lies behind the nil-error edge of Open
		succ, _, _ := callErrEdges(dec, cs.Value())
		guards := func(f *ssa.Function) []Edge {
			if f == dec {
				return succ
			}
			return nil
		}
		for _, w := range c.unguardedDeep(dec, storeHit(ctr), guards) {
			c.Violate(rule, "decryptCounter++", "decryptCounter is advanced on a path that has not passed a nil-error Open", w.In.Pos(), c.describePath(w.Path)...)
		}
		always, _ := c.deepSites(dec, storeHit(ctr))
		c.Check(len(always) > 0, rule, "decryptCounter++#exists", "decryptDataWithAAD advances decryptCounter", "decryptDataWithAAD never advances decryptCounter unconditionally after Open", cs.Pos())
		// on every path from a nil-error Open to a success return the counter is advanced
		okAll := len(succ) > 0
		for _, e := range succ {
			for _, t := range c.successTargets(dec) {
				if len(e.To().Instrs) == 0 {
					continue
				}
				if findPath(Point{e.To(), 0}, t.Target(), newCuts().AddInstrs(always...)) != nil {
					okAll = false
				}
			}
		}
		c.Check(okAll, rule, "Open-success=>decryptCounter++", "every accepted frame advances decryptCounter", "a frame can be accepted without advancing decryptCounter (replay of that frame verifies again)", cs.Pos())
	}
	// who may write decryptCounter
	ssk := c.needFn(rule, "stream", "(*Stream).SetSymmetricKey")
	imp := c.needFn(rule, "stream", "NewStreamWithCryptoState")
	var wr []*ssa.Function
	poss := map[*ssa.Function]token.Pos{}
	for _, a := range c.fieldAccesses(ctr) {
		if a.Write {
			wr = append(wr, a.Fn)
			poss[a.Fn] = a.Instr.Pos()
		}
	}
	c.whoMayDeep(rule, "write Stream.decryptCounter", wr, poss, fnSet(dec, ssk, imp))
	// the base IV is taken from the wire only while decryptCounter == 0 (first frame); later frames cannot re-seat it
	var ivW []*ssa.Function
	for _, a := range c.fieldAccesses(iv) {
		if a.Write {
			ivW = append(ivW, a.Fn)
			poss[a.Fn] = a.Instr.Pos()
		}
	}
	isIVWrite := func(in ssa.Instruction) bool {
		fa, ok := in.(*ssa.FieldAddr)
		if !ok || fieldOfAddr(fa) != iv {
			return false
		}
		w, _ := addrUses(fa)
		return w
	}
	counterZeroEdges := func(f *ssa.Function) []Edge {
		var es []Edge
		for _, b := range f.Blocks {
			ifi := blockIf(b)
			if ifi == nil {
				continue
			}
			// the branch condition must be (an alias of) decryptCounter == 0
			at := condAtom(ifi.Cond)
			cond := at.X
			if at.Op != token.ILLEGAL {
				cond = ifi.Cond
				at.Neg = false
			}
			for _, o := range origins(f, cond) {
				bo, ok := o.(*ssa.BinOp)
				if !ok || (bo.Op != token.EQL && bo.Op != token.NEQ) {
					continue
				}
				k, isC := constInt(bo.Y)
				if isC && k == 0 && readsField(bo.X, ctr) {
					zeroOnTrue := bo.Op == token.EQL
					if at.Neg {
						zeroOnTrue = !zeroOnTrue
					}
					if zeroOnTrue {
						es = append(es, Edge{b, 0})
					} else {
						es = append(es, Edge{b, 1})
					}
				}
			}
		}
		return es
	}
	nIVa, nIVm := c.deepSites(dec, isIVWrite)
	nIV := len(nIVa) + len(nIVm)
	bad := c.unguardedDeep(dec, isIVWrite, counterZeroEdges)
	for _, w := range bad {
		c.Violate(rule, "decryptIV<-wire", "decryptIV is written on a path that has not passed the decryptCounter == 0 edge: a later frame could re-seat the base IV", w.In.Pos(), c.describePath(w.Path)...)
	}
	if len(bad) == 0 && nIV > 0 {
		c.Ok(rule, "decryptIV<-wire", "every write of decryptIV on the receive path lies behind the decryptCounter == 0 edge", dec.Pos())
	}
	c.whoMayDeep(rule, "write Stream.decryptIV", ivW, poss, fnSet(dec, imp))
	c.MinCount(rule, "writes of decryptIV in decryptDataWithAAD", nIV, 1)
	// every call of decryptDataWithAAD (in the receivers or in a helper of theirs) is handed the header buffer
	// that readWithContext filled from the wire (directly, through a helper's result, or through a parameter
	// that every caller fills that way)
	n := 0
	rwc := c.needFn(rule, "stream", "(*Stream).readWithContext")
	if rwc != nil {
		for _, cs := range c.callSites(dec.Object()) {
			if pk := fnPkg(cs.Fn); pk == nil || !libPkg(pk.Path()) {
				continue
			}
			n++
			h := cs.Call.Common().Args[2]
			c.Check(c.filledBy(cs.Fn, h, rwc.Object(), 2, 3), rule, fnName(cs.Fn)+"#header-arg", "the header handed to decryptDataWithAAD is the buffer read from the wire", "the header handed to decryptDataWithAAD is not the buffer filled by readWithContext", cs.Call.Pos())
		}
	}
	c.MinCount(rule, "decryptDataWithAAD call sites in receivers", n, 1)
}

// C02-R4: reassembly uses the authenticated end flag.
func c02r4(c *Ctx) {
	const rule = "C02-R4"
	c.Doc(rule, "the end flag that ReceiveCompleteMessage, readNextFrame and ReadFrame branch on / return is result #1 of ReceiveFrameWithEnd, and that result is the header byte 0 of the frame just read")
	rfe := c.needFn(rule, "stream", "(*Stream).ReceiveFrameWithEnd")
	if rfe == nil {
		return
	}
	n := 0
	for _, name := range []string{"(*Stream).ReceiveCompleteMessage", "(*Stream).readNextFrame", "(*Stream).ReadFrame"} {
		fn := c.needFn(rule, "stream", name)
		if fn == nil {
			continue
		}
		for _, cs := range c.c02FrameReads(fn, rfe.Object(), 1, 2) {
			n++
			flag := extractN(cs.Value(), 1)
			used := false
			if flag != nil {
				for _, r := range *flag.Referrers() {
					if _, ok := r.(*ssa.BinOp); ok {
						used = true
					}
					// handed to a same-module predicate / helper that examines it
					if call, ok := r.(*ssa.Call); ok && isModuleFn(calleeFn(call)) {
						used = true
					}
				}
			}
			c.Check(used, rule, fnName(fn)+"#endflag", "branches on the end flag returned with the frame", "does not examine the end flag returned by ReceiveFrameWithEnd", cs.Pos())
		}
	}
	c.MinCount(rule, "ReceiveFrameWithEnd consumers", n, 3)
	// in ReceiveFrameWithEnd the flag result of every success return is header[0] of the buffer filled from the wire
	rwc := c.needFn(rule, "stream", "(*Stream).readWithContext")
	if rwc == nil {
		return
	}
	for _, t := range c.successTargets(rfe) {
		v := t.Ret.Results[1]
		ok := mustDepend(rfe, v, func(x ssa.Value) bool { return c.isWireByte0(rfe, x, rwc.Object(), 2, 2) })
		c.Check(ok, rule, fnName(rfe)+"#flag-result", "returned end flag is byte 0 of the header read from the wire", "returned end flag is not byte 0 of the header read from the wire", t.Ret.Pos())
	}
}

func init() { register("C02", c02r5) }

// C02-R5: reassembly never completes a message on a failed or non-final frame.
func c02r5(c *Ctx) {
	const rule = "C02-R5"
	c.Doc(rule, "in ReceiveCompleteMessage, readNextFrame, ReadFrame and message.ensureData no success return is reachable from the error edge of the frame read without a later nil-error frame read (truncation is an error), and the stream-level reassemblers return success only past an edge on which the authenticated end flag differs from EndFlagPartial")
	rfe := c.needFn(rule, "stream", "(*Stream).ReceiveFrameWithEnd")
	var readFrame types.Object
	if tp := c.PkgTypes("message"); tp != nil {
		if si := tp.Scope().Lookup("StreamInterface"); si != nil {
			readFrame, _, _ = types.LookupFieldOrMethod(si.Type(), false, tp, "ReadFrame")
		}
	}
	if readFrame == nil {
		c.AnchorMissing(rule, "message.StreamInterface.ReadFrame")
	}
	partial := c.needObj(rule, "stream", "EndFlagPartial")
	if rfe == nil || readFrame == nil || partial == nil {
		return
	}
	pv, _ := constantInt(partial)
	type site struct {
		pkg, name string
		callee    types.Object
		flagRule  bool
	}
	sites := []site{
		{"stream", "(*Stream).ReceiveCompleteMessage", rfe.Object(), true},
		{"stream", "(*Stream).readNextFrame", rfe.Object(), true},
		{"stream", "(*Stream).ReadFrame", rfe.Object(), false},
		{"message", "(*Message).ensureData", readFrame, false},
	}
	n := 0
	for _, s := range sites {
		fn := c.needFn(rule, s.pkg, s.name)
		if fn == nil {
			continue
		}
		calls := c.c02FrameReads(fn, s.callee, 1, 2)
		if len(calls) == 0 {
			// the frame read may sit in a helper that does more than pass it on (e.g. also buffers the data):
			// then the helper's own error result stands for the read's
			calls = c.callsInDeep(fn, s.callee)
		}
		if len(calls) == 0 {
			c.Violate(rule, fnName(fn)+"#frame-read", "no call to "+s.callee.Name()+" found", fn.Pos())
			continue
		}
		okCuts := newCuts()
		var failEdges []Edge
		for _, cs := range calls {
			n++
			succ, fail, checked := callErrEdges(fn, cs.Value())
			if !checked {
				c.Violate(rule, fnName(fn)+"#frame-read-error", "the error of "+s.callee.Name()+" is never tested: a truncated stream would be taken for data", cs.Pos())
			}
			okCuts.AddEdges(succ...)
			failEdges = append(failEdges, fail...)
		}
		bad := false
		for _, e := range failEdges {
			if len(e.To().Instrs) == 0 {
				continue
			}
			for _, t := range c.successTargets(fn) {
				if p := findPath(Point{e.To(), 0}, t.Target(), okCuts); p != nil {
					bad = true
					c.Violate(rule, fnName(fn)+"#error-edge", "after a failed frame read the function can still return success (message delivered although the stream broke)", t.Ret.Pos(), c.describePath(p)...)
				}
			}
		}
		if !bad {
			c.Ok(rule, fnName(fn)+"#error-edge", "a failed frame read always ends in an error return", fn.Pos())
		}
		if !s.flagRule {
			continue
		}
		// edges on which the end flag (result #1 of the call) is known to differ from EndFlagPartial
		cuts := newCuts()
		for _, cs := range calls {
			flag := extractN(cs.Value(), 1)
			if flag == nil {
				continue
			}
			cuts.AddEdges(c.c02FlagHelperEdges(fn, flag, pv)...)
			for _, b := range fn.Blocks {
				ifi := blockIf(b)
				if ifi == nil {
					continue
				}
				a := condAtom(ifi.Cond)
				if a.Op != token.EQL && a.Op != token.NEQ {
					continue
				}
				var other ssa.Value
				if a.X == flag {
					other = a.Y
				} else if a.Y == flag {
					other = a.X
				} else {
					continue
				}
				k, ok := constInt(other)
				if !ok {
					continue
				}
				eq := a.Op == token.EQL
				if a.Neg {
					eq = !eq
				}
				// edge index on which flag == k holds
				eqEdge, neEdge := Edge{b, 0}, Edge{b, 1}
				if !eq {
					eqEdge, neEdge = neEdge, eqEdge
				}
				if k == pv {
					cuts.AddEdges(neEdge) // flag != partial
				} else {
					cuts.AddEdges(eqEdge) // flag == some non-partial constant
				}
			}
		}
		// a tail self-call (return fn(...)) succeeds only if the callee instance did: inductively covered
		var tg []RetPoint
		for _, t := range c.successTargets(fn) {
			ev := t.Ret.Results[len(t.Ret.Results)-1]
			if call, _ := originCall(ev); call != nil && calleeFn(call) == fn {
				continue
			}
			tg = append(tg, t)
		}
		c.mustPassReturns(rule, fn, tg, cuts, "an edge on which the frame's end flag is not EndFlagPartial")
	}
	c.MinCount(rule, "frame-read call sites in reassemblers", n, 4)
}

func constantInt(o types.Object) (int64, bool) {
	k, ok := o.(*types.Const)
	if !ok {
		return 0, false
	}
	return constantToInt(k)
}

func init() { register("C02", c02r6, c02r7) }

// C02-R6: the message layer records the end flag of every accepted frame.
func c02r6(c *Ctx) {
	const rule = "C02-R6"
	c.Doc(rule, "in message.ensureData every path from the nil-error edge of StreamInterface.ReadFrame to the next frame read or to any return stores that frame's end-of-message result into Message.isEOM (an accepted frame's authenticated boundary is never dropped), and isEOM is written nowhere else but constructors")
	ens := c.needFn(rule, "message", "(*Message).ensureData")
	isEOM := c.needField(rule, "message", "Message", "isEOM")
	rf := c.msgReadFrame(rule)
	if ens == nil || isEOM == nil || rf == nil {
		return
	}
	// the function(s) that actually call ReadFrame on behalf of ensureData: itself, or a helper it calls
	nCalls := 0
	for fn := range c.reachableFns([]*ssa.Function{ens}, false) {
		if fnPkg(fn) != fnPkg(ens) {
			continue
		}
		calls := callsIn(fn, rf)
		for _, cs := range calls {
			nCalls++
			flag := extractN(cs.Value(), 1)
			succ, _, checked := callErrEdges(fn, cs.Value())
			if flag == nil || !checked {
				c.Violate(rule, fnName(fn)+"#ReadFrame", "the end-of-message result or the error of ReadFrame is unused", cs.Pos())
				continue
			}
			var stores []ssa.Instruction
			allInstrs(fn, func(_ *ssa.BasicBlock, _ int, in ssa.Instruction) {
				if st, ok := in.(*ssa.Store); ok {
					if fa, ok := st.Addr.(*ssa.FieldAddr); ok && fieldOfAddr(fa) == isEOM && st.Val == flag {
						stores = append(stores, st)
					}
				}
			})
			cuts := newCuts().AddInstrs(stores...)
			var targets []Target
			for _, r := range c.returnsOf(fn) {
				targets = append(targets, r.Target())
			}
			targets = append(targets, Target{Instr: cs.(ssa.Instruction)})
			ok := len(stores) > 0
			var wit []string
			for _, e := range succ {
				if len(e.To().Instrs) == 0 {
					continue
				}
				for _, t := range targets {
					if p := findPath(Point{e.To(), 0}, t, cuts); p != nil {
						ok = false
						wit = c.describePath(p)
					}
				}
			}
			c.Check(ok, rule, fnName(fn)+"#isEOM<-ReadFrame", "every accepted frame's end flag is recorded before the next read or return", "an accepted frame's end-of-message flag can be dropped (the next message would be merged into this one)", cs.Pos(), wit...)
		}
	}
	c.MinCount(rule, "ReadFrame calls on behalf of ensureData", nCalls, 1)
	fn := ens
	// writers of isEOM: ensureData and the two constructors only
	var wr []*ssa.Function
	poss := map[*ssa.Function]token.Pos{}
	for _, a := range c.fieldAccesses(isEOM) {
		if a.Write {
			wr = append(wr, a.Fn)
			poss[a.Fn] = a.Instr.Pos()
		}
	}
	c.whoMayDeep(rule, "write Message.isEOM", wr, poss, fnSet(fn, c.LookupFn("message", "NewMessageFromStream"), c.LookupFn("message", "NewMessageForStream")))
}

func (c *Ctx) msgReadFrame(rule string) types.Object {
	if tp := c.PkgTypes("message"); tp != nil {
		if si := tp.Scope().Lookup("StreamInterface"); si != nil {
			o, _, _ := types.LookupFieldOrMethod(si.Type(), false, tp, "ReadFrame")
			if o != nil {
				return o
			}
		}
	}
	c.AnchorMissing(rule, "message.StreamInterface.ReadFrame")
	return nil
}

// C02-R7: a broken stream is never mistaken for the end of a message.
func c02r7(c *Ctx) {
	const rule = "C02-R7"
	c.Doc(rule, "message-layer readers swallow an ensureData error only on the true edge of an identity comparison with the io.EOF sentinel (the value ensureData itself returns at end of message), and every error the stream's frame readers return is freshly constructed (fmt.Errorf/errors.New), so a truncated connection (wrapped EOF) can never be identical to that sentinel")
	ens := c.needFn(rule, "message", "(*Message).ensureData")
	if ens == nil {
		return
	}
	var eofVar types.Object
	if tp := c.PkgTypes("io"); tp != nil {
		eofVar = tp.Scope().Lookup("EOF")
	}
	if eofVar == nil {
		c.AnchorMissing(rule, "io.EOF")
		return
	}
	isEOFLoad := func(v ssa.Value) bool {
		u, ok := v.(*ssa.UnOp)
		if !ok || u.Op != token.MUL {
			return false
		}
		g, ok := u.X.(*ssa.Global)
		return ok && g.Object() == eofVar
	}
	n := 0
	for _, fn := range c.FnsOfPkg("message") {
		for _, cs := range callsIn(fn, ens.Object()) {
			n++
			v := cs.Value()
			if v == nil {
				continue
			}
			_, fail, checked := callErrEdges(fn, v)
			if !checked {
				// "return m.ensureData(...)" style: error is the caller's
				continue
			}
			al := aliases(fn, v)
			cuts := newCuts()
			for _, b := range fn.Blocks {
				ifi := blockIf(b)
				if ifi == nil {
					continue
				}
				a := condAtom(ifi.Cond)
				if a.Op != token.EQL && a.Op != token.NEQ {
					continue
				}
				var other ssa.Value
				if al[a.X] {
					other = a.Y
				} else if al[a.Y] {
					other = a.X
				} else {
					continue
				}
				if !isEOFLoad(other) {
					continue
				}
				eq := a.Op == token.EQL
				if a.Neg {
					eq = !eq
				}
				if eq {
					cuts.AddEdges(Edge{b, 0})
				} else {
					cuts.AddEdges(Edge{b, 1})
				}
			}
			ok := true
			var wit []string
			var pos token.Pos = cs.Pos()
			for _, e := range fail {
				if len(e.To().Instrs) == 0 {
					continue
				}
				for _, t := range c.successTargets(fn) {
					if p := findPath(Point{e.To(), 0}, t.Target(), cuts); p != nil {
						// passing another ensureData success is fine? no: the failed read already lost data
						ok = false
						wit = c.describePath(p)
					}
				}
			}
			c.Check(ok, rule, fnName(fn)+"#ensureData-error", "an ensureData error is swallowed only when it is identical to io.EOF (end of message)", "an ensureData error other than the io.EOF sentinel can be swallowed: a truncated stream would be delivered as a complete value", pos, wit...)
		}
	}
	c.MinCount(rule, "ensureData call sites in package message", n, 3)
	// the frame readers return only freshly constructed errors
	for _, name := range []string{"(*Stream).ReceiveFrameWithEnd", "(*Stream).ReceiveFrame", "(*Stream).ReadFrame"} {
		fn := c.needFn(rule, "stream", name)
		if fn == nil {
			continue
		}
		bad := c.c02RawErrorLeaf(fn, map[*ssa.Function]bool{}, 0)
		c.Check(bad == nil, rule, fnName(fn)+"#fresh-errors", "every error it returns is constructed by fmt.Errorf/errors.New (never a bare io.EOF)", "may return an error value it did not construct (a bare io.EOF from the connection would be taken for end-of-message by the message layer)", fn.Pos(), func() []string {
			if bad == nil {
				return nil
			}
			return []string{c.Pos(bad.Pos()) + " " + bad.String()}
		}()...)
	}
	// ensureData itself returns the sentinel only past the isEOM test
	isEOM := c.needField(rule, "message", "Message", "isEOM")
	if isEOM != nil {
		_, on := fieldCondEdges(ens, isEOM)
		cuts := newCuts().AddEdges(on...)
		for _, r := range c.returnsOf(ens) {
			ev := r.Ret.Results[len(r.Ret.Results)-1]
			if r.Pred != nil {
				if phi, ok := ev.(*ssa.Phi); ok {
					for i, p := range r.Ret.Block().Preds {
						if p == r.Pred {
							ev = phi.Edges[i]
						}
					}
				}
			}
			if isEOFLoad(ev) {
				p := findPath(entryPoint(ens), r.Target(), cuts)
				c.Check(p == nil, rule, fnName(ens)+"#EOF-only-at-EOM", "ensureData returns io.EOF only past an isEOM==true edge", "ensureData can return io.EOF although the frame source did not signal end of message", r.Ret.Pos(), c.describePath(p)...)
			}
		}
	}
}

// c02RawErrorLeaf returns an error-typed leaf value fn may return that is not freshly constructed.
func (c *Ctx) c02RawErrorLeaf(fn *ssa.Function, seen map[*ssa.Function]bool, depth int) ssa.Value {
	if seen[fn] || depth > 5 {
		return nil
	}
	seen[fn] = true
	for _, r := range c.returnsOf(fn) {
		ev := r.Ret.Results[len(r.Ret.Results)-1]
		for _, o := range origins(fn, ev) {
			if isNilConst(o) {
				continue
			}
			if call, _ := originCall(o); call != nil {
				if obj := calleeObj(call); obj != nil && obj.Pkg() != nil {
					full := obj.Pkg().Path() + "." + obj.Name()
					if full == "fmt.Errorf" || full == "errors.New" {
						continue
					}
				}
				if g := calleeFn(call); g != nil && g.Blocks != nil && fnPkg(g) != nil && inModule(fnPkg(g).Path()) {
					if bad := c.c02RawErrorLeaf(g, seen, depth+1); bad != nil {
						return bad
					}
					continue
				}
			}
			if mi, ok := o.(*ssa.MakeInterface); ok {
				_ = mi
				continue
			}
			return o
		}
	}
	return nil
}

// c02FrameReads lists the calls in fn that read a frame: direct calls to target, and calls to same-module
// wrappers that hand back target's results unchanged (same arity; on every non-error return, result #flagIdx is
// result #flagIdx of a target call made inside, or of a nested wrapper).
func (c *Ctx) c02FrameReads(fn *ssa.Function, target types.Object, flagIdx int, depth int) []ssa.CallInstruction {
	var out []ssa.CallInstruction
	allInstrs(fn, func(_ *ssa.BasicBlock, _ int, in ssa.Instruction) {
		call, ok := in.(ssa.CallInstruction)
		if !ok {
			return
		}
		if _, isGo := in.(*ssa.Go); isGo {
			return
		}
		if _, isDefer := in.(*ssa.Defer); isDefer {
			return
		}
		if o := calleeObj(call); o != nil && types.Object(o) == target {
			out = append(out, call)
			return
		}
		g := calleeFn(call)
		if !isModuleFn(g) || g == fn || depth <= 0 {
			return
		}
		tsig, ok := target.Type().(*types.Signature)
		if !ok || g.Signature.Results().Len() != tsig.Results().Len() {
			return
		}
		inner := c.c02FrameReads(g, target, flagIdx, depth-1)
		if len(inner) == 0 {
			return
		}
		passes, n := true, 0
		for _, r := range c.returnsOf(g) {
			if r.Class == "error" || flagIdx >= len(r.Ret.Results) {
				continue
			}
			n++
			okRet := false
			for _, o := range origins(g, r.Ret.Results[flagIdx]) {
				oc, idx := originCall(o)
				if oc == nil || idx != flagIdx {
					okRet = false
					break
				}
				okRet = false
				for _, ic := range inner {
					if ic == oc {
						okRet = true
					}
				}
				if !okRet {
					break
				}
			}
			if !okRet {
				passes = false
			}
		}
		if passes && n > 0 {
			out = append(out, call)
		}
	})
	return out
}

// c02FlagEdges: the edges of f on which value flag is known to differ from the constant pv, by a direct
// comparison of flag with a constant.
func c02FlagEdges(f *ssa.Function, flag ssa.Value, pv int64) []Edge {
	var out []Edge
	for _, b := range f.Blocks {
		ifi := blockIf(b)
		if ifi == nil {
			continue
		}
		a := condAtom(ifi.Cond)
		if a.Op != token.EQL && a.Op != token.NEQ {
			continue
		}
		var other ssa.Value
		if a.X == flag {
			other = a.Y
		} else if a.Y == flag {
			other = a.X
		} else {
			continue
		}
		k, ok := constInt(other)
		if !ok {
			continue
		}
		eq := a.Op == token.EQL
		if a.Neg {
			eq = !eq
		}
		eqEdge, neEdge := Edge{b, 0}, Edge{b, 1}
		if !eq {
			eqEdge, neEdge = neEdge, eqEdge
		}
		if k == pv {
			out = append(out, neEdge)
		} else {
			out = append(out, eqEdge)
		}
	}
	return out
}

// c02FlagHelperEdges: edges of fn decided by `if pred(flag)` where pred is a same-module boolean helper: the
// edge on which pred returned want counts when every `return want` of pred lies behind an edge (inside pred)
// on which its parameter differs from pv; also `return param != pv`-style single-expression predicates.
func (c *Ctx) c02FlagHelperEdges(fn *ssa.Function, flag ssa.Value, pv int64) []Edge {
	var out []Edge
	allInstrs(fn, func(_ *ssa.BasicBlock, _ int, in ssa.Instruction) {
		call, ok := in.(*ssa.Call)
		if !ok {
			return
		}
		g := calleeFn(call)
		if !isModuleFn(g) || g.Signature.Results().Len() != 1 {
			return
		}
		if b, isB := g.Signature.Results().At(0).Type().Underlying().(*types.Basic); !isB || b.Kind() != types.Bool {
			return
		}
		var par ssa.Value
		for i, a := range call.Call.Args {
			if a == flag && i < len(g.Params) {
				par = g.Params[i]
			}
		}
		if par == nil {
			return
		}
		inner := newCuts().AddEdges(c02FlagEdges(g, par, pv)...)
		tE, fE := boolEdges(fn, call)
		for _, want := range []bool{true, false} {
			okAll, n := true, 0
			for _, r := range c.returnsOf(g) {
				v := r.Ret.Results[0]
				if r.Pred != nil {
					if phi, isPhi := v.(*ssa.Phi); isPhi {
						for i, pr := range r.Ret.Block().Preds {
							if pr == r.Pred {
								v = phi.Edges[i]
							}
						}
					}
				}
				if bv, isC := constBool(v); isC {
					if bv != want {
						continue
					}
					n++
					if findPath(entryPoint(g), r.Target(), inner) != nil {
						okAll = false
					}
					continue
				}
				// return <comparison of the parameter with a constant>
				n++
				bo, isBO := v.(*ssa.BinOp)
				if !isBO || (bo.Op != token.EQL && bo.Op != token.NEQ) || bo.X != par {
					okAll = false
					continue
				}
				k, isK := constInt(bo.Y)
				if !isK {
					okAll = false
					continue
				}
				// result == want implies param != pv ?
				// EQL k: true => param==k (fact iff k != pv); false => param != k (fact iff k == pv)
				eqOnWant := (bo.Op == token.EQL) == want
				if eqOnWant && k == pv || !eqOnWant && k != pv {
					okAll = false
				}
			}
			if okAll && n > 0 {
				if want {
					out = append(out, tE...)
				} else {
					out = append(out, fE...)
				}
			}
		}
	})
	return out
}
