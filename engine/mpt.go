package main

import (
	"fmt"
	"go/token"
	"go/types"
	"sort"

	"golang.org/x/tools/go/ssa"
)

// mustPassReturns: every return in targets must be unreachable from fn's entry once the cut
// edges/instructions are removed (= every path to it passes one of them). One obligation per return.
func (c *Ctx) mustPassReturns(rule string, fn *ssa.Function, targets []RetPoint, cuts *Cuts, what string) (okAll bool) {
	okAll = true
	type key struct {
		ord int
	}
	grouped := map[int][]RetPoint{}
	var ords []int
	for _, t := range targets {
		o := retOrdinal(fn, t.Ret)
		if _, ok := grouped[o]; !ok {
			ords = append(ords, o)
		}
		grouped[o] = append(grouped[o], t)
	}
	sort.Ints(ords)
	for _, o := range ords {
		var wit []*ssa.BasicBlock
		var pos token.Pos
		for _, t := range grouped[o] {
			pos = t.Ret.Pos()
			if p := findPath(entryPoint(fn), t.Target(), cuts); p != nil {
				wit = p
				break
			}
		}
		construct := fmt.Sprintf("%s#return%d", fnName(fn), o)
		if wit == nil {
			c.Ok(rule, construct, "every path to this return passes "+what, pos)
		} else {
			okAll = false
			c.Violate(rule, construct, "a path reaches this return without passing "+what, pos, c.describePath(wit)...)
		}
	}
	return okAll
}

// mustPassInstr: every path from entry to instruction in passes a cut.
func (c *Ctx) mustPassInstr(rule, construct string, fn *ssa.Function, in ssa.Instruction, cuts *Cuts, what string) bool {
	p := findPath(entryPoint(fn), Target{Instr: in}, cuts)
	if p == nil {
		c.Ok(rule, construct, "every path to it passes "+what, in.Pos())
		return true
	}
	c.Violate(rule, construct, "reachable without passing "+what, in.Pos(), c.describePath(p)...)
	return false
}

// fieldCondEdges scans fn for branches whose condition is a nil/bool test of field f (of any base)
// and returns the edges on which the field is nil/false ("off") and non-nil/true ("on").
func fieldCondEdges(fn *ssa.Function, f *types.Var) (off, on []Edge) {
	for _, b := range fn.Blocks {
		ifi := blockIf(b)
		if ifi == nil {
			continue
		}
		a := condAtom(ifi.Cond)
		switch a.Op {
		case token.ILLEGAL:
			if readsField(a.X, f) {
				t, fl := Edge{b, 0}, Edge{b, 1}
				if a.Neg {
					t, fl = fl, t
				}
				on = append(on, t)
				off = append(off, fl)
			}
		case token.EQL, token.NEQ:
			var other ssa.Value
			if readsField(a.X, f) {
				other = a.Y
			} else if readsField(a.Y, f) {
				other = a.X
			} else {
				continue
			}
			if !isNilConst(other) {
				continue
			}
			eqNil := a.Op == token.EQL
			if a.Neg {
				eqNil = !eqNil
			}
			if eqNil {
				off = append(off, Edge{b, 0})
				on = append(on, Edge{b, 1})
			} else {
				off = append(off, Edge{b, 1})
				on = append(on, Edge{b, 0})
			}
		}
	}
	return
}

// need resolves an anchor or records anchor-missing.
func (c *Ctx) needFn(rule, rel, name string) *ssa.Function {
	f := c.LookupFn(rel, name)
	if f == nil || f.Blocks == nil {
		c.AnchorMissing(rule, rel+"."+name)
		return nil
	}
	return f
}

func (c *Ctx) needField(rule, rel, typ, field string) *types.Var {
	f := c.Field(rel, typ, field)
	if f == nil {
		c.AnchorMissing(rule, rel+"."+typ+"."+field)
	}
	return f
}

func (c *Ctx) needObj(rule, rel, name string) types.Object {
	o := c.LookupObj(rel, name)
	if o == nil {
		c.AnchorMissing(rule, rel+"."+name)
	}
	return o
}

// callers lists module functions containing a call (static or invoke) to obj, with the call sites.
type CallSite struct {
	Fn   *ssa.Function
	Call ssa.CallInstruction
}

func (p *Prog) callSites(objs ...types.Object) []CallSite {
	var out []CallSite
	for _, fn := range p.ModFns {
		for _, cs := range callsIn(fn, objs...) {
			out = append(out, CallSite{fn, cs})
		}
	}
	return out
}

// whoMay checks that every function in got is in the allow list; reports the others.
func (c *Ctx) whoMay(rule, what string, got []*ssa.Function, poss map[*ssa.Function]token.Pos, allow map[*ssa.Function]bool) {
	seen := map[*ssa.Function]bool{}
	for _, f := range got {
		t := topFn(f)
		if seen[t] {
			continue
		}
		seen[t] = true
		construct := what + "@" + fnName(t)
		if allow[t] {
			c.Ok(rule, construct, fnName(t)+" is an allowed site of "+what, poss[f])
		} else {
			c.Violate(rule, construct, fnName(t)+" must not "+what+" (allowed: "+allowNames(allow)+")", poss[f])
		}
	}
}

func allowNames(allow map[*ssa.Function]bool) string {
	var n []string
	for f := range allow {
		n = append(n, fnName(f))
	}
	sort.Strings(n)
	s := ""
	for i, x := range n {
		if i > 0 {
			s += ", "
		}
		s += x
	}
	return s
}
