package main

import (
	"go/constant"
	"go/token"
	"go/types"

	"golang.org/x/tools/go/ssa"
)

// ---------------------------------------------------------------------------
// helpers of the C11 rules (token authentication)

// c11ConstInt returns the value of a package-level integer constant of package security.
func (c *Ctx) c11ConstInt(rule, name string) (int64, bool) {
	o := c.needObj(rule, "security", name)
	k, ok := o.(*types.Const)
	if !ok || k.Val().Kind() != constant.Int {
		if o != nil {
			c.AnchorMissing(rule, "security."+name+" (integer constant)")
		}
		return 0, false
	}
	return constant.Int64Val(k.Val())
}

// c11CallOf: v is (result #idx of) a call to obj; returns the call.
func c11CallOf(v ssa.Value, obj types.Object, idx int) ssa.CallInstruction {
	call, i := originCall(v)
	if call == nil || obj == nil {
		return nil
	}
	if _, isTuple := call.Value().Type().(*types.Tuple); !isTuple {
		i = 0
	}
	if i != idx {
		return nil
	}
	if o := calleeObj(call); o == nil || types.Object(o) != obj {
		return nil
	}
	return call
}

// c11Origins: the leaf values v may carry, through phis, value-preserving conversions and loads of
// local cells. Unlike the shared origins() a slice expression is a leaf of its own: x[:n] is not x
// (a comparison against a truncated operand is a different comparison).
func c11Origins(v ssa.Value) []ssa.Value {
	seen := map[ssa.Value]bool{}
	var out []ssa.Value
	var walk func(v ssa.Value, d int)
	walk = func(v ssa.Value, d int) {
		if v == nil || seen[v] {
			return
		}
		seen[v] = true
		switch x := v.(type) {
		case *ssa.Phi:
			if d < 50 {
				for _, e := range x.Edges {
					walk(e, d+1)
				}
				return
			}
		case *ssa.ChangeType:
			walk(x.X, d+1)
			return
		case *ssa.ChangeInterface:
			walk(x.X, d+1)
			return
		case *ssa.MakeInterface:
			walk(x.X, d+1)
			return
		case *ssa.UnOp:
			if al, ok := x.X.(*ssa.Alloc); ok && x.Op == token.MUL && d < 50 {
				n := 0
				for _, r := range *al.Referrers() {
					if st, ok := r.(*ssa.Store); ok && st.Addr == ssa.Value(al) {
						n++
						walk(st.Val, d+1)
					}
				}
				if n > 0 {
					return
				}
			}
		}
		out = append(out, v)
	}
	walk(v, 0)
	return out
}

// c11From: every origin of v (through phis, conversions, local cells) is result #idx of a call to obj.
func c11From(fn *ssa.Function, v ssa.Value, obj types.Object, idx int) bool {
	os := c11Origins(v)
	if len(os) == 0 {
		return false
	}
	for _, o := range os {
		if c11CallOf(o, obj, idx) == nil {
			return false
		}
	}
	return true
}

// c11IsField: v is a load of field f (of any base).
func c11IsField(v ssa.Value, f *types.Var) bool { return f != nil && readsField(v, f) }

// c11CmpEdges scans fn for branches on "X == Y" / "X != Y" (negations folded) whose operands satisfy
// match in either order; returns the edges on which the operands are equal, resp. different.
func c11CmpEdges(fn *ssa.Function, match func(x, y ssa.Value) bool) (eq, ne []Edge) {
	for _, b := range fn.Blocks {
		ifi := blockIf(b)
		if ifi == nil {
			continue
		}
		a := condAtom(ifi.Cond)
		if a.Op != token.EQL && a.Op != token.NEQ {
			continue
		}
		if !match(a.X, a.Y) && !match(a.Y, a.X) {
			continue
		}
		isEq := a.Op == token.EQL
		if a.Neg {
			isEq = !isEq
		}
		if isEq {
			eq = append(eq, Edge{b, 0})
			ne = append(ne, Edge{b, 1})
		} else {
			eq = append(eq, Edge{b, 1})
			ne = append(ne, Edge{b, 0})
		}
	}
	return
}

// c11Targets converts return points to path targets.
func c11Targets(rs []RetPoint) []Target {
	var out []Target
	for _, r := range rs {
		out = append(out, r.Target())
	}
	return out
}

// c11MustPass: one obligation "every path from start (nil = entry) to any target passes a cut".
// n is the number of constructs the cut set was built from; zero means the check itself is missing.
func (c *Ctx) c11MustPass(rule, construct string, fn *ssa.Function, start *Point, targets []Target, cuts *Cuts, n int, what string, pos token.Pos) bool {
	if n == 0 {
		c.Violate(rule, construct, fnName(fn)+" has no such check: "+what, pos)
		return false
	}
	st := entryPoint(fn)
	if start != nil {
		st = *start
	}
	for _, t := range targets {
		if p := findPath(st, t, cuts); p != nil {
			c.Violate(rule, construct, "a path reaches "+c.Pos(t.Instr.Pos())+" without passing "+what, t.Instr.Pos(), c.describePath(p)...)
			return false
		}
	}
	c.Ok(rule, construct, "every path passes "+what, pos)
	return true
}

// c11Anchors are the objects all C11 rules need.
type c11Anchors struct {
	client, server                                        *ssa.Function
	store                                                 *ssa.Function // storeAuthError
	getInt, getID, getRaw, getToken                       *ssa.Function
	computeMAC, verifyMAC, bytesEq                        *ssa.Function
	validate, timing, loadKey, computeSig, deriveKeys     *ssa.Function
	step1c, step2c, step3c, step1s, step2s, step3s        *ssa.Function
	fClientID, fServerID, fRA, fRB, fToken, fSig, fK, fKP *types.Var
	fAuthErr, fStatus, fSession, fUser                    *types.Var
	okVal, errVal                                         int64
	okAll                                                 bool
}

func (c *Ctx) c11Need(rule string) *c11Anchors {
	a := &c11Anchors{okAll: true}
	fn := func(name string) *ssa.Function {
		f := c.needFn(rule, "security", name)
		if f == nil {
			a.okAll = false
		}
		return f
	}
	fld := func(typ, name string) *types.Var {
		v := c.needField(rule, "security", typ, name)
		if v == nil {
			a.okAll = false
		}
		return v
	}
	a.client = fn("(*Authenticator).performTokenAuthenticationClient")
	a.server = fn("(*Authenticator).performTokenAuthenticationServer")
	a.store = fn("(*Authenticator).storeAuthError")
	a.getInt, a.getID, a.getToken = fn("getInt"), fn("getIDString"), fn("getToken")
	a.getRaw = fn("(*Authenticator).getRawBytes")
	a.computeMAC, a.verifyMAC, a.bytesEq = fn("(*Authenticator).computeTokenMAC"), fn("(*Authenticator).verifyTokenMAC"), fn("bytesEqual")
	a.validate, a.timing = fn("(*Authenticator).validateTokenAndDeriveKeys"), fn("(*Authenticator).validateTokenTiming")
	a.loadKey, a.computeSig, a.deriveKeys = fn("(*Authenticator).loadSigningKey"), fn("(*Authenticator).computeTokenSignature"), fn("(*Authenticator).deriveTokenKeys")
	a.step1c, a.step2c, a.step3c = fn("(*Authenticator).sendClientTokenStep1"), fn("(*Authenticator).receiveTokenStep2"), fn("(*Authenticator).sendClientTokenStep3")
	a.step1s, a.step2s, a.step3s = fn("(*Authenticator).receiveServerTokenStep1"), fn("(*Authenticator).sendServerTokenStep2"), fn("(*Authenticator).receiveServerTokenStep3")
	const T = "TokenAuthData"
	a.fClientID, a.fServerID, a.fRA, a.fRB = fld(T, "ClientID"), fld(T, "ServerID"), fld(T, "RA"), fld(T, "RB")
	a.fToken, a.fSig, a.fK, a.fKP = fld(T, "Token"), fld(T, "Signature"), fld(T, "SharedKeyK"), fld(T, "SharedKeyKP")
	a.fAuthErr, a.fStatus, a.fSession = fld(T, "AuthError"), fld(T, "ErrorStatus"), fld(T, "SessionKey")
	a.fUser = fld("SecurityNegotiation", "User")
	var k1, k2 bool
	a.okVal, k1 = c.c11ConstInt(rule, "AUTH_PW_A_OK")
	a.errVal, k2 = c.c11ConstInt(rule, "AUTH_PW_ERROR")
	if !k1 || !k2 {
		a.okAll = false
	}
	if !a.okAll {
		return nil
	}
	return a
}

// c11StoreCalls lists the storeAuthError calls of fn (deferred failures).
func (a *c11Anchors) storeCalls(fn *ssa.Function) []ssa.Instruction {
	var out []ssa.Instruction
	for _, cs := range callsIn(fn, a.store.Object()) {
		out = append(out, cs)
	}
	return out
}

// c11FieldStores lists the stores to field f in fn (not in closures).
func c11FieldStores(fn *ssa.Function, f *types.Var) []*ssa.Store {
	var out []*ssa.Store
	allInstrs(fn, func(_ *ssa.BasicBlock, _ int, in ssa.Instruction) {
		if st, ok := in.(*ssa.Store); ok {
			if fa, ok := st.Addr.(*ssa.FieldAddr); ok && fieldOfAddr(fa) == f {
				out = append(out, st)
			}
		}
	})
	return out
}

// c11Writers returns the top-level functions of the module that write field f (stores, or let its
// address escape), restricted to the set within when non-nil.
func (c *Ctx) c11Writers(f *types.Var, within map[*ssa.Function]bool) map[*ssa.Function]token.Pos {
	out := map[*ssa.Function]token.Pos{}
	for _, acc := range c.fieldAccesses(f) {
		if !acc.Write {
			continue
		}
		if within != nil && !within[acc.Fn] {
			continue
		}
		out[topFn(acc.Fn)] = acc.Instr.Pos()
	}
	return out
}

// c11TokenPart: v is a JSON object decoded from part #k of strings.Split(<Token field or tokenParam>, "."):
// either a load of a local map cell filled by json.Unmarshal(base64.DecodeString(parts[k]), &cell), or
// result #0 of a helper (decodeJWTSegment) doing the same on parts[k]. Returns k, ok.
func (c *Ctx) c11TokenPart(fn *ssa.Function, v ssa.Value, isSource func(ssa.Value) bool) (int, bool) {
	partIdx := func(s ssa.Value) (int, bool) { // s is parts[k]
		ld, ok := s.(*ssa.UnOp)
		if !ok || ld.Op != token.MUL {
			return 0, false
		}
		ia, ok := ld.X.(*ssa.IndexAddr)
		if !ok {
			return 0, false
		}
		k, isC := constInt(ia.Index)
		if !isC {
			return 0, false
		}
		for _, o := range c11Origins(ia.X) {
			call, _ := originCall(o)
			if call == nil {
				return 0, false
			}
			if co := calleeObj(call); co == nil || co.Pkg() == nil || co.Pkg().Path() != "strings" || co.Name() != "Split" {
				return 0, false
			}
			sep, isS := constString(call.Common().Args[1])
			if !isS || sep != "." || !isSource(call.Common().Args[0]) {
				return 0, false
			}
		}
		return int(k), true
	}
	decoded := func(g *ssa.Function, b ssa.Value, src func(ssa.Value) (int, bool)) (int, bool) { // b = DecodeString(src)#0
		call, i := originCall(b)
		if call == nil || i != 0 {
			return 0, false
		}
		if co := calleeObj(call); co == nil || co.Pkg() == nil || co.Pkg().Path() != "encoding/base64" || co.Name() != "DecodeString" {
			return 0, false
		}
		args := call.Common().Args
		return src(args[len(args)-1])
	}
	unmarshalInto := func(g *ssa.Function, cell ssa.Value, src func(ssa.Value) (int, bool)) (int, bool) {
		res, found := 0, false
		bad := false
		allInstrs(g, func(_ *ssa.BasicBlock, _ int, in ssa.Instruction) {
			call, ok := in.(*ssa.Call)
			if !ok {
				return
			}
			co := calleeObj(call)
			if co == nil || co.Pkg() == nil || co.Pkg().Path() != "encoding/json" || co.Name() != "Unmarshal" {
				return
			}
			if stripConv(call.Call.Args[1]) != cell {
				return
			}
			k, ok := decoded(g, call.Call.Args[0], src)
			if !ok || (found && k != res) {
				bad = true
				return
			}
			res, found = k, true
		})
		return res, found && !bad
	}
	// form 1: load of a local cell
	if ld, ok := v.(*ssa.UnOp); ok && ld.Op == token.MUL {
		if cell, ok := ld.X.(*ssa.Alloc); ok {
			return unmarshalInto(fn, cell, partIdx)
		}
	}
	// form 2: result #0 of a same-package helper h(parts[k]) that decodes its parameter
	if call, i := originCall(v); call != nil && i == 0 {
		h := calleeFn(call)
		if h != nil && h.Blocks != nil && len(h.Params) == 1 && len(call.Common().Args) == 1 {
			okAll, n := true, 0
			for _, r := range c.successTargets(h) {
				n++
				rv := r.Ret.Results[0]
				ld, ok := rv.(*ssa.UnOp)
				if !ok || ld.Op != token.MUL {
					okAll = false
					continue
				}
				cell, ok := ld.X.(*ssa.Alloc)
				if !ok {
					okAll = false
					continue
				}
				if _, ok := unmarshalInto(h, cell, func(s ssa.Value) (int, bool) { return 0, s == ssa.Value(h.Params[0]) }); !ok {
					okAll = false
				}
			}
			if okAll && n > 0 {
				return partIdx(call.Common().Args[0])
			}
		}
	}
	return 0, false
}

// c11ClaimString: v is the string value of claim key of the JSON object obj:
// Extract #0 of TypeAssert(string, comma-ok or not) of (Extract #0 of) Lookup(obj, key). Returns obj.
func c11ClaimString(v ssa.Value, key string) (obj ssa.Value, ok bool) {
	if ex, isEx := v.(*ssa.Extract); isEx && ex.Index == 0 {
		v = ex.Tuple
	}
	ta, isTA := v.(*ssa.TypeAssert)
	if !isTA {
		return nil, false
	}
	if bt, isB := ta.AssertedType.Underlying().(*types.Basic); !isB || bt.Kind() != types.String {
		return nil, false
	}
	x := ta.X
	if ex, isEx := x.(*ssa.Extract); isEx && ex.Index == 0 {
		x = ex.Tuple
	}
	lk, isLk := x.(*ssa.Lookup)
	if !isLk {
		return nil, false
	}
	if s, isS := constString(lk.Index); !isS || s != key {
		return nil, false
	}
	return lk.X, true
}

// c11Lookups lists the map lookups m[key] in fn.
func c11Lookups(fn *ssa.Function, key string) []*ssa.Lookup {
	var out []*ssa.Lookup
	allInstrs(fn, func(_ *ssa.BasicBlock, _ int, in ssa.Instruction) {
		if lk, ok := in.(*ssa.Lookup); ok {
			if s, isS := constString(lk.Index); isS && s == key {
				out = append(out, lk)
			}
		}
	})
	return out
}

// c11IsNow: v is time.Now().Unix().
func c11IsNow(v ssa.Value) bool {
	call, ok := v.(*ssa.Call)
	if !ok {
		return false
	}
	co := calleeObj(call)
	if co == nil || co.Pkg() == nil || co.Pkg().Path() != "time" || co.Name() != "Unix" || len(call.Call.Args) != 1 {
		return false
	}
	inner, ok := call.Call.Args[0].(*ssa.Call)
	if !ok {
		return false
	}
	io := calleeObj(inner)
	return io != nil && io.Pkg() != nil && io.Pkg().Path() == "time" && io.Name() == "Now"
}

// c11Rel describes a branch on an ordering comparison, oriented as "L op R".
type c11Rel struct {
	Block *ssa.BasicBlock
	Op    token.Token // LSS LEQ GTR GEQ EQL NEQ, negation folded in
	L, R  ssa.Value
}

// c11Rels lists the ordering/equality branches of fn whose operands satisfy isL / isR (in either
// order; the comparison is mirrored so that L is on the left).
func c11Rels(fn *ssa.Function, isL, isR func(ssa.Value) bool) []c11Rel {
	mirror := map[token.Token]token.Token{token.LSS: token.GTR, token.GTR: token.LSS, token.LEQ: token.GEQ, token.GEQ: token.LEQ, token.EQL: token.EQL, token.NEQ: token.NEQ}
	negate := map[token.Token]token.Token{token.LSS: token.GEQ, token.GEQ: token.LSS, token.GTR: token.LEQ, token.LEQ: token.GTR, token.EQL: token.NEQ, token.NEQ: token.EQL}
	var out []c11Rel
	for _, b := range fn.Blocks {
		ifi := blockIf(b)
		if ifi == nil {
			continue
		}
		a := condAtom(ifi.Cond)
		if a.Op == token.ILLEGAL {
			continue
		}
		op := a.Op
		if a.Neg {
			op = negate[op]
		}
		switch {
		case isL(a.X) && isR(a.Y):
			out = append(out, c11Rel{b, op, a.X, a.Y})
		case isL(a.Y) && isR(a.X):
			out = append(out, c11Rel{b, mirror[op], a.Y, a.X})
		}
	}
	return out
}
