package main

import (
	"go/constant"
	"go/token"
	"go/types"
	"sort"

	"golang.org/x/tools/go/ssa"
)

// ---------------------------------------------------------------------------
// helpers of the C11 rules (token authentication)

// c11ConstInt returns the value of a package-level integer constant of package security.
func (c *Ctx) c11ConstInt(rule, name string) (int64, bool) {
	o := c.needObj(rule, "security", name)
	k, ok := o.(*types.Const)
	if !ok || k.Val().Kind() != constant.Int {
		if o != nil {
			c.AnchorMissing(rule, "security."+name+" (integer constant)")
		}
		return 0, false
	}
	return constant.Int64Val(k.Val())
}

// c11CallOf: v is (result #idx of) a call to obj; returns the call.
func c11CallOf(v ssa.Value, obj types.Object, idx int) ssa.CallInstruction {
	call, i := originCall(v)
	if call == nil || obj == nil {
		return nil
	}
	if _, isTuple := call.Value().Type().(*types.Tuple); !isTuple {
		i = 0
	}
	if i != idx {
		return nil
	}
	if o := calleeObj(call); o == nil || types.Object(o) != obj {
		return nil
	}
	return call
}

// c11Targets converts return points to path targets.
func c11Targets(rs []RetPoint) []Target {
	var out []Target
	for _, r := range rs {
		out = append(out, r.Target())
	}
	return out
}

// c11MustPass: one obligation "every path from start (nil = entry) to any target passes a cut".
// n is the number of constructs the cut set was built from; zero means the check itself is missing.
func (c *Ctx) c11MustPass(rule, construct string, fn *ssa.Function, start *Point, targets []Target, cuts *Cuts, n int, what string, pos token.Pos) bool {
	if n == 0 {
		c.Violate(rule, construct, fnName(fn)+" has no such check: "+what, pos)
		return false
	}
	st := entryPoint(fn)
	if start != nil {
		st = *start
	}
	for _, t := range targets {
		if p := findPath(st, t, cuts); p != nil {
			c.Violate(rule, construct, "a path reaches "+c.Pos(t.Instr.Pos())+" without passing "+what, t.Instr.Pos(), c.describePath(p)...)
			return false
		}
	}
	c.Ok(rule, construct, "every path passes "+what, pos)
	return true
}

// c11Anchors are the objects all C11 rules need.
type c11Anchors struct {
	client, server                                        *ssa.Function
	store                                                 *ssa.Function // storeAuthError
	getInt, getID, getRaw                                 *ssa.Function
	computeMAC                                            *ssa.Function
	bytesEq                                               *ssa.Function // optional: nil when the comparisons use bytes.Equal / hmac.Equal directly
	validate, timing, loadKey, computeSig, deriveKeys     *ssa.Function
	step1c, step2c, step1s, step2s, step3s                *ssa.Function
	fClientID, fServerID, fRA, fRB, fToken, fSig, fK, fKP *types.Var
	fAuthErr, fStatus, fUser                              *types.Var
	okVal, errVal                                         int64
	okAll                                                 bool
}

func (c *Ctx) c11Need(rule string) *c11Anchors {
	a := &c11Anchors{okAll: true}
	fn := func(name string) *ssa.Function {
		f := c.needFn(rule, "security", name)
		if f == nil {
			a.okAll = false
		}
		return f
	}
	fld := func(typ, name string) *types.Var {
		v := c.needField(rule, "security", typ, name)
		if v == nil {
			a.okAll = false
		}
		return v
	}
	a.client = fn("(*Authenticator).performTokenAuthenticationClient")
	a.server = fn("(*Authenticator).performTokenAuthenticationServer")
	a.store = fn("(*Authenticator).storeAuthError")
	a.getInt, a.getID = fn("getInt"), fn("getIDString")
	a.getRaw = fn("(*Authenticator).getRawBytes")
	a.computeMAC = fn("(*Authenticator).computeTokenMAC")
	// bytesEqual and verifyTokenMAC are helpers the comparisons may or may not go through: they are
	// followed when called, not required to exist
	if f := c.LookupFn("security", "bytesEqual"); f != nil && f.Blocks != nil {
		a.bytesEq = f
	}
	a.validate, a.timing = fn("(*Authenticator).validateTokenAndDeriveKeys"), fn("(*Authenticator).validateTokenTiming")
	a.loadKey, a.computeSig, a.deriveKeys = fn("(*Authenticator).loadSigningKey"), fn("(*Authenticator).computeTokenSignature"), fn("(*Authenticator).deriveTokenKeys")
	a.step1c, a.step2c = fn("(*Authenticator).sendClientTokenStep1"), fn("(*Authenticator).receiveTokenStep2")
	a.step1s, a.step2s, a.step3s = fn("(*Authenticator).receiveServerTokenStep1"), fn("(*Authenticator).sendServerTokenStep2"), fn("(*Authenticator).receiveServerTokenStep3")
	const T = "TokenAuthData"
	a.fClientID, a.fServerID, a.fRA, a.fRB = fld(T, "ClientID"), fld(T, "ServerID"), fld(T, "RA"), fld(T, "RB")
	a.fToken, a.fSig, a.fK, a.fKP = fld(T, "Token"), fld(T, "Signature"), fld(T, "SharedKeyK"), fld(T, "SharedKeyKP")
	a.fAuthErr, a.fStatus = fld(T, "AuthError"), fld(T, "ErrorStatus")
	a.fUser = fld("SecurityNegotiation", "User")
	var k1, k2 bool
	a.okVal, k1 = c.c11ConstInt(rule, "AUTH_PW_A_OK")
	a.errVal, k2 = c.c11ConstInt(rule, "AUTH_PW_ERROR")
	if !k1 || !k2 {
		a.okAll = false
	}
	if !a.okAll {
		return nil
	}
	return a
}

// c11Writers returns the top-level functions of the module that write field f (stores, or let its
// address escape), restricted to the set within when non-nil.
func (c *Ctx) c11Writers(f *types.Var, within map[*ssa.Function]bool) map[*ssa.Function]token.Pos {
	out := map[*ssa.Function]token.Pos{}
	for _, acc := range c.fieldAccesses(f) {
		if !acc.Write {
			continue
		}
		if within != nil && !within[acc.Fn] {
			continue
		}
		out[topFn(acc.Fn)] = acc.Instr.Pos()
	}
	return out
}

// c11IsNow: v is time.Now().Unix().
func c11IsNow(v ssa.Value) bool {
	call, ok := v.(*ssa.Call)
	if !ok {
		return false
	}
	co := calleeObj(call)
	if co == nil || co.Pkg() == nil || co.Pkg().Path() != "time" || co.Name() != "Unix" || len(call.Call.Args) != 1 {
		return false
	}
	inner, ok := call.Call.Args[0].(*ssa.Call)
	if !ok {
		return false
	}
	io := calleeObj(inner)
	return io != nil && io.Pkg() != nil && io.Pkg().Path() == "time" && io.Name() == "Now"
}

// c11Rel describes a branch on an ordering comparison, oriented as "L op R".
type c11Rel struct {
	Block *ssa.BasicBlock
	Op    token.Token // LSS LEQ GTR GEQ EQL NEQ, negation folded in
	L, R  ssa.Value
}

// c11Rels lists the ordering/equality branches of fn whose operands satisfy isL / isR (in either
// order; the comparison is mirrored so that L is on the left).
func c11Rels(fn *ssa.Function, isL, isR func(ssa.Value) bool) []c11Rel {
	mirror := map[token.Token]token.Token{token.LSS: token.GTR, token.GTR: token.LSS, token.LEQ: token.GEQ, token.GEQ: token.LEQ, token.EQL: token.EQL, token.NEQ: token.NEQ}
	negate := map[token.Token]token.Token{token.LSS: token.GEQ, token.GEQ: token.LSS, token.GTR: token.LEQ, token.LEQ: token.GTR, token.EQL: token.NEQ, token.NEQ: token.EQL}
	var out []c11Rel
	for _, b := range fn.Blocks {
		ifi := blockIf(b)
		if ifi == nil {
			continue
		}
		a := condAtom(ifi.Cond)
		if a.Op == token.ILLEGAL {
			continue
		}
		op := a.Op
		if a.Neg {
			op = negate[op]
		}
		switch {
		case isL(a.X) && isR(a.Y):
			out = append(out, c11Rel{b, op, a.X, a.Y})
		case isL(a.Y) && isR(a.X):
			out = append(out, c11Rel{b, mirror[op], a.Y, a.X})
		}
	}
	return out
}

// ---------------------------------------------------------------------------
// following same-package helpers
//
// The rules look for checks (branch edges), stores and calls "in function f". A behaviour-preserving
// refactoring may move any of them into an unexported helper (a boolean predicate, an error-returning
// step, a value-producing helper, a setter), inline a helper, or materialise a condition in a local
// boolean. The machinery below lets a rule state a fact once, at the level of the atomic comparison /
// call / store, and finds it wherever it is written:
//
//   c11Env    a function body seen through a chain of call sites (parameters bound to arguments);
//   c11LV     a value located in such a body; c11Leaves / c11All resolve provenance through phis,
//             local cells, parameters (to the caller's argument) and returned values of helpers;
//   c11Fact   what establishes the fact: a boolean value being true/false, an instruction executing,
//             a call returning a nil error;
//   c11Query  cut sets per body: direct hits, plus calls to helpers whose body establishes the fact
//             on every path to a return (the call itself), to a nil-error return (the call's
//             nil-error edges) or to a return of true/false (the edges on which the call's result
//             is true/false). A branch on a boolean phi counts through the incoming edge that
//             carries the establishing value (Cuts.AddVia).
//
// Helpers are followed inside the package of the root function, to InlineDepth, never recursively.

type c11Env struct {
	fn     *ssa.Function
	call   ssa.CallInstruction // the call in parent.fn through which fn is seen; nil for a root
	parent *c11Env
	depth  int
	kids   map[ssa.CallInstruction]*c11Env
}

func c11Root(fn *ssa.Function) *c11Env { return &c11Env{fn: fn} }

// root returns the outermost environment of the chain.
func (e *c11Env) root() *c11Env {
	for e.parent != nil {
		e = e.parent
	}
	return e
}

// enter returns the environment of the body called by call (an instruction of e.fn), or nil when
// the callee cannot be followed: dynamic, no body, another package, recursive, too deep, go/defer.
func (e *c11Env) enter(call ssa.CallInstruction) *c11Env {
	if e == nil || call == nil {
		return nil
	}
	if k, ok := e.kids[call]; ok {
		return k
	}
	if e.kids == nil {
		e.kids = map[ssa.CallInstruction]*c11Env{}
	}
	var k *c11Env
	if _, isCall := call.(*ssa.Call); isCall && call.Parent() == e.fn && e.depth < InlineDepth {
		g := calleeFn(call)
		if g != nil && g.Blocks != nil && fnPkg(g) != nil && fnPkg(g) == fnPkg(e.root().fn) && len(g.Params) == len(call.Common().Args) {
			rec := false
			for a := e; a != nil; a = a.parent {
				if a.fn == g {
					rec = true
				}
			}
			if !rec {
				k = &c11Env{fn: g, call: call, parent: e, depth: e.depth + 1}
			}
		}
	}
	e.kids[call] = k
	return k
}

// arg maps a parameter of e.fn to the caller's argument (nil for a root or a foreign parameter).
func (e *c11Env) arg(p *ssa.Parameter) ssa.Value {
	if e == nil || e.call == nil || e.parent == nil {
		return nil
	}
	for i, q := range e.fn.Params {
		if q == p && i < len(e.call.Common().Args) {
			return e.call.Common().Args[i]
		}
	}
	return nil
}

// envOf returns the environment in e's chain whose body is fn, or a fresh root for fn.
func (e *c11Env) envOf(fn *ssa.Function) *c11Env {
	for a := e; a != nil; a = a.parent {
		if a.fn == fn {
			return a
		}
	}
	return &c11Env{fn: fn}
}

// c11LV is a value located in a body.
type c11LV struct {
	V ssa.Value
	E *c11Env
}

// c11Leaves: the leaf values lv may carry, through phis, value-preserving conversions, loads of
// local variable cells (also cells captured by closures) and parameters of followed helpers.
// Slice expressions and Convert stay leaves: x[:n] is not x (a comparison against a truncated
// operand is a different comparison).
func c11Leaves(lv c11LV) []c11LV {
	seen := map[c11LV]bool{}
	var out []c11LV
	var walk func(lv c11LV, d int)
	walk = func(lv c11LV, d int) {
		if lv.V == nil || seen[lv] {
			return
		}
		seen[lv] = true
		if d > 60 {
			out = append(out, lv)
			return
		}
		switch x := lv.V.(type) {
		case *ssa.Phi:
			for _, e := range x.Edges {
				walk(c11LV{e, lv.E}, d+1)
			}
			return
		case *ssa.ChangeType:
			walk(c11LV{x.X, lv.E}, d+1)
			return
		case *ssa.ChangeInterface:
			walk(c11LV{x.X, lv.E}, d+1)
			return
		case *ssa.MakeInterface:
			walk(c11LV{x.X, lv.E}, d+1)
			return
		case *ssa.Parameter:
			if a := lv.E.arg(x); a != nil {
				walk(c11LV{a, lv.E.parent}, d+1)
				return
			}
		case *ssa.UnOp:
			if x.Op == token.MUL {
				if cell := c18Cell(x.X); cell != nil {
					ce := lv.E.envOf(cell.Parent())
					n := 0
					for _, st := range c18CellStores(cell) {
						n++
						se := ce
						if st.Parent() != ce.fn {
							se = &c11Env{fn: st.Parent(), parent: ce, depth: ce.depth}
						}
						walk(c11LV{st.Val, se}, d+1)
					}
					if n > 0 {
						return
					}
				}
			}
		}
		out = append(out, lv)
	}
	walk(lv, 0)
	return out
}

// c11ValueReturns lists the values a followed helper returns as result #idx on its non-error returns.
func (c *Ctx) c11ValueReturns(h *ssa.Function, idx int) []ssa.Value {
	var out []ssa.Value
	for _, r := range c.successTargets(h) {
		if idx >= len(r.Ret.Results) {
			return nil
		}
		v := r.Ret.Results[idx]
		if phi, ok := v.(*ssa.Phi); ok && r.Pred != nil && phi.Block() == r.Ret.Block() {
			for i, p := range phi.Block().Preds {
				if p == r.Pred {
					v = phi.Edges[i]
				}
			}
		}
		out = append(out, v)
	}
	return out
}

// c11All: lv has leaves and every one of them satisfies pred, where a leaf that is the result of a
// followed helper is replaced by what that helper returns (value helper).
func (c *Ctx) c11All(lv c11LV, pred func(c11LV) bool) bool {
	var rec func(lv c11LV, d int) bool
	rec = func(lv c11LV, d int) bool {
		ls := c11Leaves(lv)
		if len(ls) == 0 {
			return false
		}
		for _, l := range ls {
			if pred(l) {
				continue
			}
			call, idx := originCall(l.V)
			if call == nil || d >= InlineDepth {
				return false
			}
			he := l.E.enter(call)
			if he == nil {
				return false
			}
			rets := c.c11ValueReturns(he.fn, idx)
			if len(rets) == 0 {
				return false
			}
			for _, r := range rets {
				if !rec(c11LV{r, he}, d+1) {
					return false
				}
			}
		}
		return true
	}
	return rec(lv, 0)
}

// c11LeavesDeep: the leaves of lv, where a leaf that is the result of a followed helper is replaced
// by the leaves of what the helper returns on its non-error returns.
func (c *Ctx) c11LeavesDeep(lv c11LV) []c11LV {
	var out []c11LV
	seen := map[c11LV]bool{}
	var rec func(lv c11LV, d int)
	rec = func(lv c11LV, d int) {
		for _, l := range c11Leaves(lv) {
			if seen[l] {
				continue
			}
			seen[l] = true
			if call, idx := originCall(l.V); call != nil && d < InlineDepth {
				if he := l.E.enter(call); he != nil {
					if rets := c.c11ValueReturns(he.fn, idx); len(rets) > 0 {
						for _, r := range rets {
							rec(c11LV{r, he}, d+1)
						}
						continue
					}
				}
			}
			out = append(out, l)
		}
	}
	rec(lv, 0)
	return out
}

// c11SameDeepLeaves: x has leaves (value helpers looked into) and each of them is a leaf of one of set.
func (c *Ctx) c11SameDeepLeaves(x c11LV, set []c11LV) bool {
	have := map[c11LV]bool{}
	for _, s := range set {
		for _, l := range c.c11LeavesDeep(s) {
			have[l] = true
		}
	}
	ls := c.c11LeavesDeep(x)
	if len(ls) == 0 {
		return false
	}
	for _, l := range ls {
		if !have[l] {
			return false
		}
	}
	return true
}

// c11One: lv resolves to exactly one leaf (through phis, cells, parameters) and returns it.
func (c *Ctx) c11One(lv c11LV) (c11LV, bool) {
	ls := c11Leaves(lv)
	if len(ls) == 1 {
		return ls[0], true
	}
	return c11LV{}, false
}

// c11Source is result #idx of a call to fn.
type c11Source struct {
	fn  types.Object
	idx int
}

// c11SourcesOf: what a same-module value helper hands out as its result #idx: the results of calls
// to functions that are not followed (the primary reads it wraps, e.g. (*message.Message).GetBytes
// for getRawBytes). Empty when any non-error return yields something else. A call site where the
// helper has been inlined reads from the same sources, so a value from one of them is as good as the
// helper's result.
func (c *Ctx) c11SourcesOf(obj types.Object, idx int) []c11Source {
	f, ok := obj.(*types.Func)
	if !ok {
		return nil
	}
	h := c.SSA.FuncValue(f)
	if h == nil || h.Blocks == nil || fnPkg(h) == nil || !inModule(fnPkg(h).Path()) {
		return nil
	}
	root := c11Root(h)
	var out []c11Source
	rets := c.c11ValueReturns(h, idx)
	if len(rets) == 0 {
		return nil
	}
	for _, r := range rets {
		ls := c.c11LeavesDeep(c11LV{r, root})
		if len(ls) == 0 {
			return nil
		}
		for _, l := range ls {
			if k, isC := l.V.(*ssa.Const); isC {
				n, isInt := constInt(k)
				str, isStr := constString(k)
				if k.Value == nil || isNilConst(k) || (isInt && n == 0) || (isStr && str == "") {
					continue // the zero value handed out next to an error carries nothing
				}
			}
			call, i := originCall(l.V)
			if call == nil {
				return nil
			}
			if _, isTuple := call.Value().Type().(*types.Tuple); !isTuple {
				i = 0
			}
			co := calleeObj(call)
			if co == nil || l.E.enter(call) != nil {
				return nil
			}
			out = append(out, c11Source{co, i})
		}
	}
	return out
}

// c11LVFrom: every origin of lv is result #idx of a call to obj -- or, where obj is a value helper
// that has been inlined at the call site, of a call to one of the primary sources obj wraps.
func (c *Ctx) c11LVFrom(lv c11LV, obj types.Object, idx int) bool {
	var srcs []c11Source
	loaded := false
	return c.c11All(lv, func(l c11LV) bool {
		if c11CallOf(l.V, obj, idx) != nil {
			return true
		}
		if call, _ := originCall(l.V); call == nil || l.E.enter(call) != nil {
			return false // not a call, or a helper c11All looks into
		}
		if !loaded {
			srcs, loaded = c.c11SourcesOf(obj, idx), true
		}
		for _, s := range srcs {
			if c11CallOf(l.V, s.fn, s.idx) != nil {
				return true
			}
		}
		return false
	})
}

// c11LVField: every origin of lv is a load of field f.
func (c *Ctx) c11LVField(lv c11LV, f *types.Var) bool {
	return f != nil && c.c11All(lv, func(l c11LV) bool { return readsField(l.V, f) })
}

// c11LVConstInt / c11LVConstString / c11LVNil: every origin of lv is that constant.
func (c *Ctx) c11LVConstInt(lv c11LV, want int64) bool {
	return c.c11All(lv, func(l c11LV) bool { v, ok := constInt(l.V); return ok && v == want })
}

func (c *Ctx) c11LVConstString(lv c11LV, want string) bool {
	return c.c11All(lv, func(l c11LV) bool { v, ok := constString(l.V); return ok && v == want })
}

func (c *Ctx) c11LVNil(lv c11LV) bool {
	return c.c11All(lv, func(l c11LV) bool { return isNilConst(l.V) })
}

// c11Dep: lv must-depends (mustDepend) on a value satisfying pred, where a parameter of a followed
// helper depends on what the caller's argument depends on and the result of a followed helper on
// what its returned values depend on (every non-constant returned value, at least one).
func (c *Ctx) c11Dep(lv c11LV, pred func(ssa.Value) bool) bool {
	return c.c11DepLV(lv, func(l c11LV) bool { return pred(l.V) })
}

func (c *Ctx) c11DepLV(lv c11LV, pred func(c11LV) bool) bool {
	var rec func(lv c11LV, d int) bool
	rec = func(lv c11LV, d int) bool {
		if lv.V == nil || lv.E == nil || d > 2*InlineDepth {
			return false
		}
		results := func(he *c11Env, idx int) bool { // idx < 0: any non-error result
			n := 0
			for _, r := range c.successTargets(he.fn) {
				for i, res := range r.Ret.Results {
					if isErrorType(res.Type()) || (idx >= 0 && i != idx) {
						continue
					}
					if _, isC := res.(*ssa.Const); isC {
						continue
					}
					if !rec(c11LV{res, he}, d+1) {
						return false
					}
					n++
				}
			}
			return n > 0
		}
		return mustDepend(lv.E.fn, lv.V, func(x ssa.Value) bool {
			if pred(c11LV{x, lv.E}) {
				return true
			}
			switch y := x.(type) {
			case *ssa.Parameter:
				if a := lv.E.arg(y); a != nil {
					return rec(c11LV{a, lv.E.parent}, d+1)
				}
			case *ssa.Extract:
				if call, ok := y.Tuple.(*ssa.Call); ok {
					if he := lv.E.enter(call); he != nil {
						return results(he, y.Index)
					}
				}
			case *ssa.Call:
				if _, isTuple := y.Type().(*types.Tuple); !isTuple {
					if he := lv.E.enter(y); he != nil {
						return results(he, 0)
					}
				}
			}
			return false
		})
	}
	return rec(lv, 0)
}

// c11Fact says what establishes a fact.
type c11Fact struct {
	cond  func(lv c11LV, want bool) bool                                     // boolean value lv being want establishes it
	instr func(in ssa.Instruction, e *c11Env) bool                           // executing in establishes it
	errOK func(call ssa.CallInstruction, e *c11Env) bool                     // call returning a nil error establishes it
	boolR func(call ssa.CallInstruction, e *c11Env) (idx int, want, ok bool) // result #idx of call being want establishes it
}

// c11AnyFact: any one of the facts.
func c11AnyFact(fs ...c11Fact) c11Fact {
	return c11Fact{
		cond: func(lv c11LV, want bool) bool {
			for _, f := range fs {
				if f.cond != nil && f.cond(lv, want) {
					return true
				}
			}
			return false
		},
		instr: func(in ssa.Instruction, e *c11Env) bool {
			for _, f := range fs {
				if f.instr != nil && f.instr(in, e) {
					return true
				}
			}
			return false
		},
		errOK: func(call ssa.CallInstruction, e *c11Env) bool {
			for _, f := range fs {
				if f.errOK != nil && f.errOK(call, e) {
					return true
				}
			}
			return false
		},
		boolR: func(call ssa.CallInstruction, e *c11Env) (int, bool, bool) {
			for _, f := range fs {
				if f.boolR != nil {
					if i, w, ok := f.boolR(call, e); ok {
						return i, w, true
					}
				}
			}
			return 0, false, false
		},
	}
}

// c11CmpFact: a comparison X == Y (X != Y when eq is false) whose operands satisfy match in either order.
func c11CmpFact(eq bool, match func(x, y c11LV) bool) c11Fact {
	return c11Fact{cond: func(lv c11LV, want bool) bool {
		bo, ok := lv.V.(*ssa.BinOp)
		if !ok || (bo.Op != token.EQL && bo.Op != token.NEQ) {
			return false
		}
		if (bo.Op == token.EQL) != (want == eq) {
			return false
		}
		x, y := c11LV{bo.X, lv.E}, c11LV{bo.Y, lv.E}
		return match(x, y) || match(y, x)
	}}
}

// c11RelFact: an ordering/equality comparison "L op R" (mirrored and negated as needed) accepted by ok.
func c11RelFact(isL, isR func(c11LV) bool, ok func(op token.Token) bool) c11Fact {
	mirror := map[token.Token]token.Token{token.LSS: token.GTR, token.GTR: token.LSS, token.LEQ: token.GEQ, token.GEQ: token.LEQ, token.EQL: token.EQL, token.NEQ: token.NEQ}
	negate := map[token.Token]token.Token{token.LSS: token.GEQ, token.GEQ: token.LSS, token.GTR: token.LEQ, token.LEQ: token.GTR, token.EQL: token.NEQ, token.NEQ: token.EQL}
	return c11Fact{cond: func(lv c11LV, want bool) bool {
		bo, isBo := lv.V.(*ssa.BinOp)
		if !isBo {
			return false
		}
		op, known := bo.Op, false
		if _, known = mirror[op]; !known {
			return false
		}
		if !want {
			op = negate[op]
		}
		x, y := c11LV{bo.X, lv.E}, c11LV{bo.Y, lv.E}
		switch {
		case isL(x) && isR(y):
			return ok(op)
		case isL(y) && isR(x):
			return ok(mirror[op])
		}
		return false
	}}
}

// c11CallFact: executing a call to obj establishes the fact.
func c11CallFact(obj types.Object) c11Fact {
	return c11Fact{instr: func(in ssa.Instruction, _ *c11Env) bool {
		_, ok := isCallTo(in, obj)
		if _, isCall := in.(*ssa.Call); !isCall {
			return false
		}
		return ok
	}}
}

type c11CutInfo struct {
	cuts *Cuts
	n    int // number of cut items placed in this body (0 = the fact is established nowhere in it)
}

type c11Sum struct {
	always   bool // every return is behind the fact
	onNilErr bool // every possibly-nil-error return is behind the fact
	hasErr   bool
	bools    map[[2]int]bool
}

// c11Query evaluates one fact over bodies.
type c11Query struct {
	c    *Ctx
	fact c11Fact
	cuts map[*c11Env]*c11CutInfo
	sums map[*c11Env]*c11Sum
	// errRet marks returns of a body that are error returns although their error operand is not
	// syntactically non-nil (rule-specific idioms); nil = none
	errRet func(e *c11Env, r RetPoint) bool
}

// succTargets: the possibly-nil-error returns of body e.
func (q *c11Query) succTargets(e *c11Env) []RetPoint {
	var out []RetPoint
	for _, r := range q.c.successTargets(e.fn) {
		if q.errRet != nil && q.errRet(e, r) {
			continue
		}
		out = append(out, r)
	}
	return out
}

func (c *Ctx) c11NewQuery(fact c11Fact) *c11Query {
	return &c11Query{c: c, fact: fact, cuts: map[*c11Env]*c11CutInfo{}, sums: map[*c11Env]*c11Sum{}}
}

func c11IsBool(t types.Type) bool {
	b, ok := t.Underlying().(*types.Basic)
	return ok && b.Info()&types.IsBoolean != 0
}

func c11StripNot(v ssa.Value) (ssa.Value, bool) {
	neg := false
	for {
		u, ok := v.(*ssa.UnOp)
		if !ok || u.Op != token.NOT {
			return v, neg
		}
		neg = !neg
		v = u.X
	}
}

// c11CondCuts adds the edges of fn on which boolean value v is known to equal want: the matching
// successor of every If on v / !v, and -- for a boolean phi of the branching block one of whose
// incoming values is v / !v ("ok := a && v; if ok") -- that successor for paths arriving through the
// corresponding predecessor. Returns the number of edges added.
func c11CondCuts(fn *ssa.Function, v ssa.Value, want bool, cuts *Cuts) int {
	n := 0
	for _, b := range fn.Blocks {
		ifi := blockIf(b)
		if ifi == nil {
			continue
		}
		base, neg := c11StripNot(ifi.Cond)
		if base == v {
			idx := 1
			if want != neg {
				idx = 0
			}
			cuts.AddEdges(Edge{b, idx})
			n++
			continue
		}
		phi, ok := base.(*ssa.Phi)
		if !ok || phi.Block() != b {
			continue
		}
		for i, e := range phi.Edges {
			eb, eneg := c11StripNot(e)
			if eb != v || i >= len(b.Preds) {
				continue
			}
			idx := 1
			if want != (eneg != neg) {
				idx = 0
			}
			cuts.AddVia(b.Preds[i], Edge{b, idx})
			n++
		}
	}
	return n
}

// c11NilTests lists the comparisons of fn that test error value e (or an alias) against nil.
func c11NilTests(fn *ssa.Function, e ssa.Value) []*ssa.BinOp {
	al := aliases(fn, e)
	var out []*ssa.BinOp
	allInstrs(fn, func(_ *ssa.BasicBlock, _ int, in ssa.Instruction) {
		bo, ok := in.(*ssa.BinOp)
		if !ok || (bo.Op != token.EQL && bo.Op != token.NEQ) {
			return
		}
		if (al[bo.X] && isNilConst(bo.Y)) || (al[bo.Y] && isNilConst(bo.X)) {
			out = append(out, bo)
		}
	})
	return out
}

// c11NilErrCuts adds the edges of fn on which the error result of call is known nil (failing: non-nil).
// A call whose error is handed straight to the function's own return ("return step(...)") counts as
// a whole: the function succeeds only if the call did. Returns the number of cut items.
func c11NilErrCuts(fn *ssa.Function, call ssa.CallInstruction, cuts *Cuts, failing bool) int {
	n := 0
	v := call.Value()
	if v == nil {
		return 0
	}
	for _, e := range errResults(v) {
		for _, bo := range c11NilTests(fn, e) {
			n += c11CondCuts(fn, bo, (bo.Op == token.EQL) != failing, cuts)
		}
		if !failing && c11OnlyReturned(e) {
			cuts.AddInstrs(call)
			n++
		}
	}
	return n
}

// c11OnlyReturned: the value is used only as an operand of Return instructions.
func c11OnlyReturned(e ssa.Value) bool {
	refs := e.Referrers()
	if refs == nil {
		return false
	}
	n := 0
	for _, r := range *refs {
		switch r.(type) {
		case *ssa.Return:
			n++
		case *ssa.DebugRef:
		default:
			return false
		}
	}
	return n > 0
}

// cutsOf builds the cut set of body e for the query's fact.
func (q *c11Query) cutsOf(e *c11Env) *c11CutInfo {
	if ci, ok := q.cuts[e]; ok {
		return ci
	}
	ci := &c11CutInfo{cuts: newCuts()}
	q.cuts[e] = ci
	fn := e.fn
	tryCond := func(v ssa.Value) {
		for _, want := range []bool{true, false} {
			if q.implies(c11LV{v, e}, want, 0) {
				ci.n += c11CondCuts(fn, v, want, ci.cuts)
			}
		}
	}
	for _, p := range fn.Params {
		if c11IsBool(p.Type()) && e.parent != nil {
			tryCond(p)
		}
	}
	allInstrs(fn, func(_ *ssa.BasicBlock, _ int, in ssa.Instruction) {
		if q.fact.instr != nil && q.fact.instr(in, e) {
			ci.cuts.AddInstrs(in)
			ci.n++
			return
		}
		if v, ok := in.(ssa.Value); ok && c11IsBool(v.Type()) {
			switch x := in.(type) {
			case *ssa.Phi:
			case *ssa.UnOp:
				if x.Op != token.NOT {
					tryCond(v)
				}
			default:
				tryCond(v)
			}
		}
		call, ok := in.(*ssa.Call)
		if !ok {
			return
		}
		if q.fact.errOK != nil && q.fact.errOK(call, e) {
			ci.n += c11NilErrCuts(fn, call, ci.cuts, false)
			return
		}
		if q.fact.boolR != nil {
			if idx, want, ok := q.fact.boolR(call, e); ok {
				if r := extractN(call, idx); r != nil {
					ci.n += c11CondCuts(fn, r, want, ci.cuts)
				}
				return
			}
		}
		he := e.enter(call)
		if he == nil {
			return
		}
		s := q.summary(he)
		switch {
		case s.always:
			ci.cuts.AddInstrs(call)
			ci.n++
		case s.onNilErr:
			ci.n += c11NilErrCuts(fn, call, ci.cuts, false)
		}
	})
	// boolean variables assembled from several conditions ("ok := a || b; …; if ok"): decided with
	// the cuts found so far
	allInstrs(fn, func(_ *ssa.BasicBlock, _ int, in ssa.Instruction) {
		if phi, ok := in.(*ssa.Phi); ok && c11IsBool(phi.Type()) {
			tryCond(phi)
		}
	})
	return ci
}

// implies: boolean value lv being want establishes the fact.
func (q *c11Query) implies(lv c11LV, want bool, d int) bool {
	if d > 8 || lv.V == nil {
		return false
	}
	if q.fact.cond != nil && q.fact.cond(lv, want) {
		return true
	}
	switch x := lv.V.(type) {
	case *ssa.UnOp:
		if x.Op == token.NOT {
			return q.implies(c11LV{x.X, lv.E}, !want, d+1)
		}
	case *ssa.Parameter:
		if a := lv.E.arg(x); a != nil {
			return q.implies(c11LV{a, lv.E.parent}, want, d+1)
		}
	case *ssa.Phi:
		// "a || b" as a value: each incoming value that can be want implies the fact, or flows in
		// through an edge that lies behind it
		if len(x.Block().Instrs) == 0 {
			return false
		}
		ci := q.cutsOf(lv.E)
		n := 0
		for i, e := range x.Edges {
			k, isC := constBool(e)
			if isC && k != want {
				continue
			}
			n++
			if !isC && q.implies(c11LV{e, lv.E}, want, d+1) {
				continue
			}
			if findPath(entryPoint(lv.E.fn), Target{Instr: x.Block().Instrs[0], Pred: x.Block().Preds[i]}, ci.cuts) != nil {
				return false
			}
		}
		return n > 0
	case *ssa.Call, *ssa.Extract:
		call, idx := originCall(lv.V)
		if call == nil {
			return false
		}
		if q.fact.boolR != nil {
			if i, w, ok := q.fact.boolR(call, lv.E); ok && i == idx && w == want {
				return true
			}
		}
		if he := lv.E.enter(call); he != nil {
			if !q.boolResult(he, idx, want) {
				return false
			}
			// when the helper also returns an error, that error must not be ignored
			for _, e := range errResults(call.Value()) {
				if len(c11NilTests(lv.E.fn, e)) == 0 && !c11OnlyReturned(e) {
					return false
				}
			}
			return true
		}
	}
	return false
}

// summary: which outcomes of helper body he imply the fact.
func (q *c11Query) summary(he *c11Env) *c11Sum {
	if s, ok := q.sums[he]; ok {
		return s
	}
	s := &c11Sum{bools: map[[2]int]bool{}}
	q.sums[he] = s
	ci := q.cutsOf(he)
	if ci.n == 0 {
		return s
	}
	h := he.fn
	rets := q.c.returnsOf(h)
	s.always = len(rets) > 0
	for _, r := range rets {
		if findPath(entryPoint(h), r.Target(), ci.cuts) != nil {
			s.always = false
			break
		}
	}
	res := h.Signature.Results()
	for i := 0; i < res.Len(); i++ {
		if isErrorType(res.At(i).Type()) {
			s.hasErr = true
		}
	}
	if s.hasErr && !s.always {
		succ := q.succTargets(he)
		s.onNilErr = len(succ) > 0
		for _, r := range succ {
			if findPath(entryPoint(h), r.Target(), ci.cuts) != nil {
				s.onNilErr = false
				break
			}
		}
	}
	return s
}

// boolResult: result #idx of helper body he being want implies the fact: every return that can
// yield want either returns a value that itself implies it, or lies behind the fact.
func (q *c11Query) boolResult(he *c11Env, idx int, want bool) bool {
	s := q.summary(he)
	w := 0
	if want {
		w = 1
	}
	if r, ok := s.bools[[2]int{idx, w}]; ok {
		return r
	}
	s.bools[[2]int{idx, w}] = false
	h := he.fn
	if idx >= h.Signature.Results().Len() || !c11IsBool(h.Signature.Results().At(idx).Type()) {
		return false
	}
	ci := q.cutsOf(he)
	okAll, n := true, 0
	// a helper that also returns an error: its boolean is meaningful on the nil-error returns (the
	// caller has to test the error, see implies)
	var live map[*ssa.Return]bool
	if s.hasErr {
		live = map[*ssa.Return]bool{}
		for _, r := range q.succTargets(he) {
			live[r.Ret] = true
		}
	}
	for _, b := range h.Blocks {
		if len(b.Instrs) == 0 {
			continue
		}
		ret, isRet := b.Instrs[len(b.Instrs)-1].(*ssa.Return)
		if !isRet || idx >= len(ret.Results) || (live != nil && !live[ret]) {
			continue
		}
		type inc struct {
			v    ssa.Value
			pred *ssa.BasicBlock
		}
		var incs []inc
		if phi, isPhi := ret.Results[idx].(*ssa.Phi); isPhi && phi.Block() == b {
			for i, e := range phi.Edges {
				incs = append(incs, inc{e, b.Preds[i]})
			}
		} else {
			incs = append(incs, inc{ret.Results[idx], nil})
		}
		for _, in := range incs {
			if k, isC := constBool(in.v); isC && k != want {
				continue
			}
			n++
			if _, isC := constBool(in.v); !isC && q.implies(c11LV{in.v, he}, want, 1) {
				continue
			}
			if findPath(entryPoint(h), Target{Instr: ret, Pred: in.pred}, ci.cuts) != nil {
				okAll = false
			}
		}
	}
	res := okAll && n > 0
	s.bools[[2]int{idx, w}] = res
	return res
}

// c11Pass: one obligation "every path of root's body from start (nil = entry) to a target passes
// fact (or alt, which does not count as the check being present)".
func (c *Ctx) c11Pass(rule, construct string, root *c11Env, start *Point, targets []Target, fact c11Fact, alt *c11Fact, what string, pos token.Pos) bool {
	n := c.c11NewQuery(fact).cutsOf(root).n
	f := fact
	if alt != nil {
		f = c11AnyFact(fact, *alt)
	}
	cuts := c.c11NewQuery(f).cutsOf(root).cuts
	return c.c11MustPass(rule, construct, root.fn, start, targets, cuts, n, what, pos)
}

// c11StoreSite is a store to a field, in a root body or in a helper it calls.
type c11StoreSite struct {
	site ssa.Instruction // the instruction of the root body: the store itself or the call that leads to it
	st   *ssa.Store
	val  c11LV // the stored value, in the body the store is written in
	env  *c11Env
}

// c11Stores lists the stores to field f in body e and in the same-package helpers it calls (setter
// methods, extracted steps). Closures are not descended into unless called.
func c11Stores(e *c11Env, f *types.Var) []c11StoreSite {
	return c11StoresWhere(e, func(st *ssa.Store) bool {
		fa, ok := st.Addr.(*ssa.FieldAddr)
		return ok && fieldOfAddr(fa) == f
	})
}

func c11StoresWhere(e *c11Env, match func(*ssa.Store) bool) []c11StoreSite {
	var out []c11StoreSite
	var walk func(e *c11Env, site ssa.Instruction)
	walk = func(e *c11Env, site ssa.Instruction) {
		allInstrs(e.fn, func(_ *ssa.BasicBlock, _ int, in ssa.Instruction) {
			s := site
			if s == nil {
				s = in
			}
			if st, ok := in.(*ssa.Store); ok && match(st) {
				out = append(out, c11StoreSite{site: s, st: st, val: c11LV{st.Val, e}, env: e})
				return
			}
			if call, ok := in.(*ssa.Call); ok {
				if he := e.enter(call); he != nil {
					walk(he, s)
				}
			}
		})
	}
	walk(e, nil)
	return out
}

// c11CallSitesIn lists the calls to obj in body e and in the same-package helpers it calls; site is
// the instruction of the root body.
type c11CallSite struct {
	site ssa.Instruction
	call ssa.CallInstruction
	env  *c11Env
}

func c11CallsTo(e *c11Env, match func(ssa.CallInstruction) bool) []c11CallSite {
	var out []c11CallSite
	var walk func(e *c11Env, site ssa.Instruction)
	walk = func(e *c11Env, site ssa.Instruction) {
		allInstrs(e.fn, func(_ *ssa.BasicBlock, _ int, in ssa.Instruction) {
			call, ok := in.(ssa.CallInstruction)
			if !ok {
				return
			}
			s := site
			if s == nil {
				s = in
			}
			if match(call) {
				out = append(out, c11CallSite{site: s, call: call, env: e})
				return
			}
			if he := e.enter(call); he != nil {
				walk(he, s)
			}
		})
	}
	walk(e, nil)
	return out
}

// c11ValueUses: the module functions that use a function as a value (anything but calling it).
func (c *Ctx) c11UsedAsValue(g *ssa.Function) bool {
	for _, fn := range c.ModFns {
		used := false
		allInstrs(fn, func(_ *ssa.BasicBlock, _ int, in ssa.Instruction) {
			if used {
				return
			}
			var callee ssa.Value
			if call, ok := in.(ssa.CallInstruction); ok {
				callee = call.Common().Value
			}
			for _, op := range in.Operands(nil) {
				if *op == ssa.Value(g) && *op != callee {
					used = true
				}
				if *op == ssa.Value(g) && *op == callee {
					// the callee operand; but the function may also be an argument of the same call
					for _, a := range in.(ssa.CallInstruction).Common().Args {
						if a == ssa.Value(g) {
							used = true
						}
					}
				}
			}
		})
		if used {
			return true
		}
	}
	return false
}

// c11HelperOf: g is an unexported function (or closure) that is only ever called, and only from the
// allowed functions or from other such helpers: what it does, the allowed functions do.
func (c *Ctx) c11HelperOf(g *ssa.Function, allow map[*ssa.Function]bool, depth int) bool {
	g = topFn(g)
	if allow[g] {
		return true
	}
	if depth <= 0 || g.Object() == nil || g.Object().Exported() || c.c11UsedAsValue(g) {
		return false
	}
	sites := c.callSites(g.Object())
	if len(sites) == 0 {
		return false
	}
	for _, cs := range sites {
		if _, isCall := cs.Call.(*ssa.Call); !isCall {
			return false
		}
		if t := topFn(cs.Fn); t != g && !c.c11HelperOf(t, allow, depth-1) {
			return false
		}
	}
	return true
}

// c11WhoMay: every writer is an allowed function or a helper only reachable from the allowed ones.
func (c *Ctx) c11WhoMay(rule, what string, writers map[*ssa.Function]token.Pos, allow map[*ssa.Function]bool) {
	var wr []*ssa.Function
	for f := range writers {
		wr = append(wr, f)
	}
	sort.Slice(wr, func(i, j int) bool { return fnName(wr[i]) < fnName(wr[j]) })
	for _, f := range wr {
		t := topFn(f)
		construct := what + "@" + fnName(t)
		switch {
		case allow[t]:
			c.Ok(rule, construct, fnName(t)+" is an allowed site of "+what, writers[f])
		case c.c11HelperOf(t, allow, InlineDepth):
			c.Ok(rule, construct, fnName(t)+" is an unexported helper called only from the allowed sites of "+what+" ("+allowNames(allow)+")", writers[f])
		default:
			c.Violate(rule, construct, fnName(t)+" must not "+what+" (allowed: "+allowNames(allow)+")", writers[f])
		}
	}
}

// guards: every path to instruction in (of body e) passes the fact, at some level of the call chain:
// inside e from its entry, or in a caller on the way to the call that leads to e. start replaces the
// entry of the root body. Returns a witness path of the root level when not.
func (q *c11Query) guards(start *Point, e *c11Env, in ssa.Instruction) (bool, []*ssa.BasicBlock) {
	for {
		st := entryPoint(e.fn)
		if e.parent == nil && start != nil {
			st = *start
		}
		p := findPath(st, Target{Instr: in}, q.cutsOf(e).cuts)
		if p == nil {
			return true, nil
		}
		if e.parent == nil {
			return false, p
		}
		in, e = e.call, e.parent
	}
}

// c11PassTo: one obligation "every path (of the root body, from start or its entry) to instruction
// in of body e passes fact (or alt)".
func (c *Ctx) c11PassTo(rule, construct string, start *Point, e *c11Env, in ssa.Instruction, fact c11Fact, alt *c11Fact, what string) bool {
	root := e.root()
	if c.c11NewQuery(fact).cutsOf(root).n == 0 {
		// the fact may still be established inside the helper that contains the instruction
		n := 0
		for a := e; a != nil; a = a.parent {
			n += c.c11NewQuery(fact).cutsOf(a).n
		}
		if n == 0 {
			c.Violate(rule, construct, fnName(root.fn)+" has no such check: "+what, in.Pos())
			return false
		}
	}
	f := fact
	if alt != nil {
		f = c11AnyFact(fact, *alt)
	}
	ok, p := c.c11NewQuery(f).guards(start, e, in)
	if !ok {
		c.Violate(rule, construct, "reachable without passing "+what, in.Pos(), c.describePath(p)...)
		return false
	}
	c.Ok(rule, construct, "every path to it passes "+what, in.Pos())
	return true
}

// c11SplitPart: lv is parts[k] of strings.Split(src, ".") with src satisfying isSource. Returns k.
func (c *Ctx) c11SplitPart(lv c11LV, isSource func(c11LV) bool) (int, bool) {
	res, found, bad := 0, false, false
	ok := c.c11All(lv, func(l c11LV) bool {
		ld, isLd := l.V.(*ssa.UnOp)
		if !isLd || ld.Op != token.MUL {
			return false
		}
		ia, isIA := ld.X.(*ssa.IndexAddr)
		if !isIA {
			return false
		}
		k, isC := constInt(ia.Index)
		if !isC {
			return false
		}
		if !c.c11IsSplit(c11LV{ia.X, l.E}, isSource) {
			return false
		}
		if found && int(k) != res {
			bad = true
		}
		res, found = int(k), true
		return true
	})
	return res, ok && found && !bad
}

// c11IsSplit: lv is strings.Split(src, ".") with src satisfying isSource.
func (c *Ctx) c11IsSplit(lv c11LV, isSource func(c11LV) bool) bool {
	return c.c11All(lv, func(o c11LV) bool {
		call, _ := originCall(o.V)
		if call == nil {
			return false
		}
		if co := calleeObj(call); co == nil || co.Pkg() == nil || co.Pkg().Path() != "strings" || co.Name() != "Split" {
			return false
		}
		return c.c11LVConstString(c11LV{call.Common().Args[1], o.E}, ".") && isSource(c11LV{call.Common().Args[0], o.E})
	})
}

// c11Base64Of: lv is result #0 of base64 DecodeString(src); returns src.
func (c *Ctx) c11Base64Of(lv c11LV, src func(c11LV) bool) bool {
	return c.c11All(lv, func(l c11LV) bool {
		call, i := originCall(l.V)
		if call == nil || i != 0 {
			return false
		}
		if co := calleeObj(call); co == nil || co.Pkg() == nil || co.Pkg().Path() != "encoding/base64" || co.Name() != "DecodeString" {
			return false
		}
		args := call.Common().Args
		return src(c11LV{args[len(args)-1], l.E})
	})
}

// c11TokenPartLV: lv is a JSON object decoded from part #k of strings.Split(<source>, "."): a load of a
// local map cell filled by json.Unmarshal(base64.DecodeString(parts[k]), &cell) -- in the body itself or
// in a helper that returns the decoded object. Returns k.
func (c *Ctx) c11TokenPartLV(lv c11LV, isSource func(c11LV) bool) (int, bool) {
	res, found, bad := 0, false, false
	ok := c.c11All(lv, func(l c11LV) bool {
		ld, isLd := l.V.(*ssa.UnOp)
		if !isLd || ld.Op != token.MUL {
			return false
		}
		cell, isCell := ld.X.(*ssa.Alloc)
		if !isCell {
			return false
		}
		n, good := 0, true
		allInstrs(l.E.fn, func(_ *ssa.BasicBlock, _ int, in ssa.Instruction) {
			call, isCall := in.(*ssa.Call)
			if !isCall {
				return
			}
			co := calleeObj(call)
			if co == nil || co.Pkg() == nil || co.Pkg().Path() != "encoding/json" || co.Name() != "Unmarshal" {
				return
			}
			if stripConv(call.Call.Args[1]) != ssa.Value(cell) {
				return
			}
			n++
			if !c.c11Base64Of(c11LV{call.Call.Args[0], l.E}, func(s c11LV) bool {
				k, ok := c.c11SplitPart(s, isSource)
				if !ok || (found && k != res) {
					bad = true
					return false
				}
				res, found = k, true
				return true
			}) {
				good = false
			}
		})
		return n > 0 && good
	})
	return res, ok && found && !bad
}

// c11ClaimStringLV: lv is the string value of claim key of a JSON object: Extract #0 of
// TypeAssert(string) of (Extract #0 of) Lookup(obj, key); every origin must be of that form (constant ""
// allowed when emptyOK) and obj must satisfy isObj.
func (c *Ctx) c11ClaimStringLV(lv c11LV, key string, emptyOK bool, isObj func(c11LV) bool) bool {
	n := 0
	ok := c.c11All(lv, func(l c11LV) bool {
		if s, isC := constString(l.V); isC && s == "" && emptyOK {
			return true
		}
		v := l.V
		if ex, isEx := v.(*ssa.Extract); isEx && ex.Index == 0 {
			v = ex.Tuple
		}
		ta, isTA := v.(*ssa.TypeAssert)
		if !isTA {
			return false
		}
		if bt, isB := ta.AssertedType.Underlying().(*types.Basic); !isB || bt.Kind() != types.String {
			return false
		}
		n++
		return c.c11All(c11LV{ta.X, l.E}, func(m c11LV) bool {
			x := m.V
			if ex, isEx := x.(*ssa.Extract); isEx && ex.Index == 0 {
				x = ex.Tuple
			}
			lk, isLk := x.(*ssa.Lookup)
			if !isLk {
				return false
			}
			return c.c11LVConstString(c11LV{lk.Index, m.E}, key) && isObj(c11LV{lk.X, m.E})
		})
	})
	return ok && (n > 0 || emptyOK)
}

// c11SameLeaves: every leaf of x is a leaf of one of the values in set.
func c11SameLeaves(x c11LV, set []c11LV) bool {
	have := map[c11LV]bool{}
	for _, s := range set {
		for _, l := range c11Leaves(s) {
			have[l] = true
		}
	}
	ls := c11Leaves(x)
	if len(ls) == 0 {
		return false
	}
	for _, l := range ls {
		if !have[l] {
			return false
		}
	}
	return true
}

// c11IsNowLV: lv is time.Now().Unix().
func (c *Ctx) c11IsNowLV(lv c11LV) bool {
	return c.c11All(lv, func(l c11LV) bool { return c11IsNow(l.V) })
}

// c11Bodies lists root and every helper body followed from it (each once per call chain).
func c11Bodies(root *c11Env) []*c11Env {
	var out []*c11Env
	var walk func(e *c11Env)
	walk = func(e *c11Env) {
		out = append(out, e)
		allInstrs(e.fn, func(_ *ssa.BasicBlock, _ int, in ssa.Instruction) {
			if call, ok := in.(*ssa.Call); ok {
				if he := e.enter(call); he != nil {
					walk(he)
				}
			}
		})
	}
	walk(root)
	return out
}

// c11CmpEdges scans fn for branches on "X == Y" / "X != Y" (negations folded) whose operands satisfy
// match in either order; returns the edges on which the operands are equal, resp. different.
func c11CmpEdges(fn *ssa.Function, match func(x, y ssa.Value) bool) (eq, ne []Edge) {
	for _, b := range fn.Blocks {
		ifi := blockIf(b)
		if ifi == nil {
			continue
		}
		a := condAtom(ifi.Cond)
		if a.Op != token.EQL && a.Op != token.NEQ {
			continue
		}
		if !match(a.X, a.Y) && !match(a.Y, a.X) {
			continue
		}
		isEq := a.Op == token.EQL
		if a.Neg {
			isEq = !isEq
		}
		if isEq {
			eq = append(eq, Edge{b, 0})
			ne = append(ne, Edge{b, 1})
		} else {
			eq = append(eq, Edge{b, 1})
			ne = append(ne, Edge{b, 0})
		}
	}
	return
}
