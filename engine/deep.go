package main

// Helper-following ("deep") variants of the primitives: rules must keep working when a contributor extracts a
// check, a store or a step into a same-module helper, or inlines one (tools/ROBUSTNESS_BRIEF.md).

import (
	"go/token"
	"go/types"

	"golang.org/x/tools/go/ssa"
)

const deepDepth = 4

func isModuleFn(g *ssa.Function) bool {
	return g != nil && g.Blocks != nil && fnPkg(g) != nil && inModule(fnPkg(g).Path())
}

// deepSites returns the instructions of fn that satisfy hit directly, plus the call instructions of fn whose
// static module callee passes a hit on every path to every return (transitively, bounded): "performs the
// effect". Deferred helpers count at registration. Calls whose callee only sometimes performs it are
// returned in maybe.
func (p *Prog) deepSites(fn *ssa.Function, hit func(ssa.Instruction) bool) (always, maybe []ssa.Instruction) {
	return p.deepSitesD(fn, hit, deepDepth, map[*ssa.Function]bool{fn: true})
}

func (p *Prog) deepSitesD(fn *ssa.Function, hit func(ssa.Instruction) bool, depth int, active map[*ssa.Function]bool) (always, maybe []ssa.Instruction) {
	allInstrs(fn, func(_ *ssa.BasicBlock, _ int, in ssa.Instruction) {
		if hit(in) {
			always = append(always, in)
			return
		}
		call, ok := in.(ssa.CallInstruction)
		if !ok || depth <= 0 {
			return
		}
		if _, isGo := in.(*ssa.Go); isGo {
			return
		}
		g := calleeFn(call)
		if !isModuleFn(g) || active[g] {
			return
		}
		active[g] = true
		ga, gm := p.deepSitesD(g, hit, depth-1, active)
		delete(active, g)
		if len(ga) == 0 && len(gm) == 0 {
			return
		}
		// does g pass one of its "always" sites on every path to every return?
		cuts := newCuts().AddInstrs(ga...)
		all := len(ga) > 0
		if all {
			for _, r := range p.returnsOf(g) {
				if findPath(entryPoint(g), r.Target(), cuts) != nil {
					all = false
					break
				}
			}
		}
		if all {
			always = append(always, in)
		} else {
			maybe = append(maybe, in)
		}
	})
	return
}

// storeHit: instruction is a store to field f (any base).
func storeHit(f *types.Var) func(ssa.Instruction) bool {
	return func(in ssa.Instruction) bool {
		st, ok := in.(*ssa.Store)
		if !ok {
			return false
		}
		fa, ok := st.Addr.(*ssa.FieldAddr)
		return ok && fieldOfAddr(fa) == f
	}
}

// callHit: instruction is a call (static or invoke) to one of objs.
func callHit(objs ...types.Object) func(ssa.Instruction) bool {
	return func(in ssa.Instruction) bool {
		_, ok := isCallTo(in, objs...)
		return ok
	}
}

// onlyReachableFrom: every static call site of f in the module lies in a function that is in allow or is
// itself only reachable from allow (transitively); f has at least one caller and is never used as a value.
func (p *Prog) onlyReachableFrom(f *ssa.Function, allow map[*ssa.Function]bool) bool {
	return p.onlyReachableFromD(f, allow, map[*ssa.Function]bool{}, 0)
}

func (p *Prog) onlyReachableFromD(f *ssa.Function, allow map[*ssa.Function]bool, active map[*ssa.Function]bool, depth int) bool {
	f = topFn(f)
	if allow[f] {
		return true
	}
	if depth > deepDepth || active[f] || f.Object() == nil {
		return false
	}
	if obj := f.Object(); obj != nil && obj.Exported() {
		return false // part of the API: anyone may call it
	}
	active[f] = true
	defer delete(active, f)
	callers := 0
	ok := true
	for _, g := range p.ModFns {
		allInstrs(g, func(_ *ssa.BasicBlock, _ int, in ssa.Instruction) {
			if !ok {
				return
			}
			// used as a value (method value, stored in a variable, passed along): unknown callers
			for _, op := range in.Operands(nil) {
				if *op == ssa.Value(f) {
					if call, isCall := in.(ssa.CallInstruction); isCall && call.Common().Value == ssa.Value(f) {
						continue
					}
					ok = false
					return
				}
			}
			call, isCall := in.(ssa.CallInstruction)
			if !isCall || calleeFn(call) != f {
				return
			}
			callers++
			if !p.onlyReachableFromD(g, allow, active, depth+1) {
				ok = false
			}
		})
	}
	return ok && callers > 0
}

// whoMayDeep is whoMay with the helper closure: a function outside allow is accepted when it is an
// unexported helper only reachable from the allowed functions.
func (c *Ctx) whoMayDeep(rule, what string, got []*ssa.Function, poss map[*ssa.Function]token.Pos, allow map[*ssa.Function]bool) {
	seen := map[*ssa.Function]bool{}
	for _, f := range got {
		t := topFn(f)
		if seen[t] {
			continue
		}
		seen[t] = true
		construct := what + "@" + fnName(t)
		switch {
		case allow[t]:
			c.Ok(rule, construct, fnName(t)+" is an allowed site of "+what, poss[f])
		case c.onlyReachableFrom(t, allow):
			c.Ok(rule, construct, fnName(t)+" is a helper only reachable from the allowed sites of "+what, poss[f])
		default:
			c.Violate(rule, construct, fnName(t)+" must not "+what+" (allowed: "+allowNames(allow)+" and helpers only they call)", poss[f])
		}
	}
}

// callsInDeep lists the call instructions in fn that call one of objs directly or call a module helper that
// calls it on every path to a success return (the helper "is" the call for must-pass purposes).
func (p *Prog) callsInDeep(fn *ssa.Function, objs ...types.Object) []ssa.CallInstruction {
	var out []ssa.CallInstruction
	hit := callHit(objs...)
	allInstrs(fn, func(_ *ssa.BasicBlock, _ int, in ssa.Instruction) {
		call, ok := in.(ssa.CallInstruction)
		if !ok {
			return
		}
		if hit(in) {
			out = append(out, call)
			return
		}
		if _, isGo := in.(*ssa.Go); isGo {
			return
		}
		if g := calleeFn(call); isModuleFn(g) && g != fn && p.mustPassOnSuccess(g, hit, nil, deepDepth-1) {
			out = append(out, call)
		}
	})
	return out
}

// mustDependDeep is mustDepend that also looks through the results of same-module callees: a call result
// depends on pred when every return of the callee (the matching result) does, or when an argument does.
func (p *Prog) mustDependDeep(fn *ssa.Function, v ssa.Value, pred func(ssa.Value) bool) bool {
	return p.mustDependDeepD(fn, v, pred, 3)
}

func (p *Prog) mustDependDeepD(fn *ssa.Function, v ssa.Value, pred func(ssa.Value) bool, depth int) bool {
	through := func(x ssa.Value) bool {
		if pred(x) {
			return true
		}
		if depth <= 0 {
			return false
		}
		call, idx := originCall(x)
		if call == nil {
			return false
		}
		g := calleeFn(call)
		if !isModuleFn(g) || g == fn {
			return false
		}
		n := 0
		for _, b := range g.Blocks {
			if len(b.Instrs) == 0 {
				continue
			}
			ret, ok := b.Instrs[len(b.Instrs)-1].(*ssa.Return)
			if !ok || idx >= len(ret.Results) {
				continue
			}
			n++
			if !p.mustDependDeepD(g, ret.Results[idx], pred, depth-1) {
				return false
			}
		}
		return n > 0
	}
	return mustDepend(fn, v, through)
}

// ---------------------------------------------------------------------------
// guarded-somewhere-on-the-call-chain

// DeepWitness describes a hit that can be reached without passing a guarding edge.
type DeepWitness struct {
	Fn   *ssa.Function
	In   ssa.Instruction
	Path []*ssa.BasicBlock
}

// unguardedDeep returns the hit instructions, in fn or in module helpers reachable from fn through static
// calls, that can execute without a guarding edge having been passed: in the function containing the hit, or
// in any caller on the chain from fn before the call. guards(f) yields the guarding edges of function f.
func (p *Prog) unguardedDeep(fn *ssa.Function, hit func(ssa.Instruction) bool, guards func(*ssa.Function) []Edge) []DeepWitness {
	var out []DeepWitness
	active := map[*ssa.Function]bool{}
	var walk func(f *ssa.Function, depth int)
	walk = func(f *ssa.Function, depth int) {
		if active[f] || depth > deepDepth {
			return
		}
		active[f] = true
		defer delete(active, f)
		cuts := newCuts().AddEdges(guards(f)...)
		allInstrs(f, func(_ *ssa.BasicBlock, _ int, in ssa.Instruction) {
			if hit(in) {
				if path := findPath(entryPoint(f), Target{Instr: in}, cuts); path != nil {
					out = append(out, DeepWitness{f, in, path})
				}
				return
			}
			call, ok := in.(ssa.CallInstruction)
			if !ok {
				return
			}
			if _, isGo := in.(*ssa.Go); isGo {
				return
			}
			g := calleeFn(call)
			if !isModuleFn(g) {
				return
			}
			// only descend when the helper can perform the effect at all and the call itself is not guarded here
			if a, m := p.deepSites(g, hit); len(a) == 0 && len(m) == 0 && !containsHit(g, hit) {
				return
			}
			if findPath(entryPoint(f), Target{Instr: in}, cuts) == nil {
				return // the call is guarded in f
			}
			walk(g, depth+1)
		})
	}
	walk(fn, 0)
	return out
}

func containsHit(f *ssa.Function, hit func(ssa.Instruction) bool) bool {
	found := false
	allInstrs(f, func(_ *ssa.BasicBlock, _ int, in ssa.Instruction) {
		if hit(in) {
			found = true
		}
	})
	return found
}

// ---------------------------------------------------------------------------
// call-context facts for helper parameters

// lenRoot: the value whose zero-ness equals the zero-ness of len(s).
func lenRoot(s ssa.Value) ssa.Value {
	if ms, ok := s.(*ssa.MakeSlice); ok {
		return zeroRoot(ms.Len)
	}
	return s
}

// paramLenNonZero: at every static call site of g in the module, the argument for parameter i is a slice
// whose length is known non-zero there (a dominating branch on the same SSA value, see infeasibleEdges).
func (p *Prog) paramLenNonZero(g *ssa.Function, i int) bool {
	n := 0
	ok := true
	for _, f := range p.ModFns {
		allInstrs(f, func(_ *ssa.BasicBlock, _ int, in ssa.Instruction) {
			call, isCall := in.(ssa.CallInstruction)
			if !isCall || calleeFn(call) != g || !ok {
				return
			}
			n++
			args := call.Common().Args
			if i >= len(args) {
				ok = false
				return
			}
			root := lenRoot(args[i])
			known := false
			for _, b := range f.Blocks {
				r, _, nz, isZ := zeroEdges(b)
				if isZ && r == root && instrDominatedByEdge(f, nz, in) {
					known = true
				}
			}
			if !known {
				ok = false
			}
		})
	}
	return ok && n > 0
}

// zeroLenParamEdges: edges of helper g on which len(param) == 0 although every caller passes a non-empty
// slice for that parameter: infeasible in every calling context.
func (p *Prog) zeroLenParamEdges(g *ssa.Function) []Edge {
	var out []Edge
	for _, b := range g.Blocks {
		root, zero, _, ok := zeroEdges(b)
		if !ok {
			continue
		}
		call, isCall := root.(*ssa.Call)
		if !isCall {
			continue
		}
		if bi, isB := call.Call.Value.(*ssa.Builtin); !isB || bi.Name() != "len" {
			continue
		}
		par, isPar := call.Call.Args[0].(*ssa.Parameter)
		if !isPar {
			continue
		}
		for i, q := range g.Params {
			if q == par && p.paramLenNonZero(g, i) {
				out = append(out, zero)
			}
		}
	}
	return out
}

// filledBy reports whether buffer value v (a slice) is, in fn, the buffer handed to a call of filler as
// argument argIdx - directly, or as the result of a module helper that returns such a buffer.
func (p *Prog) filledBy(fn *ssa.Function, v ssa.Value, filler types.Object, argIdx int, depth int) bool {
	for _, cs := range callsIn(fn, filler) {
		args := cs.Common().Args
		if argIdx < len(args) && memRoot(args[argIdx]) == memRoot(v) {
			return true
		}
	}
	if depth <= 0 {
		return false
	}
	for _, o := range origins(fn, v) {
		call, idx := originCall(o)
		if call == nil {
			continue
		}
		g := calleeFn(call)
		if !isModuleFn(g) || g == fn {
			continue
		}
		okAll, n := true, 0
		for _, r := range p.returnsOf(g) {
			if r.Class == "error" || idx >= len(r.Ret.Results) {
				continue
			}
			rv := r.Ret.Results[idx]
			if isNilConst(rv) {
				continue
			}
			n++
			if !p.filledBy(g, rv, filler, argIdx, depth-1) {
				okAll = false
			}
		}
		if okAll && n > 0 {
			return true
		}
	}
	// a parameter: every caller passes a filled buffer
	if par, ok := v.(*ssa.Parameter); ok {
		idx := -1
		for i, q := range fn.Params {
			if q == par {
				idx = i
			}
		}
		n, okAll := 0, true
		for _, f := range p.ModFns {
			for _, cs := range callsIn(f, fn.Object()) {
				n++
				args := cs.Common().Args
				if idx < 0 || idx >= len(args) || !p.filledBy(f, args[idx], filler, argIdx, depth-1) {
					okAll = false
				}
			}
		}
		return okAll && n > 0
	}
	return false
}

// condCutsDeep returns the cut set of fn for a condition-shaped obligation: edgesOf(f) yields the edges of a
// function on which the required fact holds; in addition the nil-error (or true-result) edge of a call to a
// same-module helper counts when every path of the helper to a success return (to a `return true`) passes
// such an edge inside it - "if err := s.checkCleanBoundary(); err != nil { return err }".
func (p *Prog) condCutsDeep(fn *ssa.Function, edgesOf func(*ssa.Function) []Edge, depth int) *Cuts {
	return p.condCutsDeepD(fn, edgesOf, depth, map[*ssa.Function]bool{fn: true})
}

func (p *Prog) condCutsDeepD(fn *ssa.Function, edgesOf func(*ssa.Function) []Edge, depth int, active map[*ssa.Function]bool) *Cuts {
	cuts := newCuts().AddEdges(edgesOf(fn)...)
	if depth <= 0 {
		return cuts
	}
	allInstrs(fn, func(_ *ssa.BasicBlock, _ int, in ssa.Instruction) {
		call, ok := in.(*ssa.Call)
		if !ok {
			return
		}
		g := calleeFn(call)
		if !isModuleFn(g) || active[g] {
			return
		}
		active[g] = true
		inner := p.condCutsDeepD(g, edgesOf, depth-1, active)
		delete(active, g)
		if len(inner.Edges) == 0 && len(inner.Instrs) == 0 {
			return
		}
		if len(errResults(call)) > 0 {
			// error-returning helper: its success returns must all lie behind a fact edge
			okAll, n := true, 0
			for _, t := range p.successTargets(g) {
				n++
				if findPath(entryPoint(g), t.Target(), inner) != nil {
					okAll = false
				}
			}
			if okAll && n > 0 {
				succ, _, checked := callErrEdges(fn, call)
				if checked {
					cuts.AddEdges(succ...)
				} else {
					cuts.AddInstrs(in) // "return helper()": the caller succeeds only if the helper did
				}
			}
			return
		}
		// boolean helper: which constant result is only reachable behind a fact edge?
		if b, isB := g.Signature.Results().At(0).Type().Underlying().(*types.Basic); g.Signature.Results().Len() == 1 && isB && b.Kind() == types.Bool {
			for _, want := range []bool{true, false} {
				okAll, n := true, 0
				for _, r := range p.returnsOf(g) {
					v := r.Ret.Results[0]
					if r.Pred != nil {
						if phi, isPhi := v.(*ssa.Phi); isPhi {
							for i, pr := range r.Ret.Block().Preds {
								if pr == r.Pred {
									v = phi.Edges[i]
								}
							}
						}
					}
					bv, isC := constBool(v)
					if isC && bv != want {
						continue
					}
					n++
					if findPath(entryPoint(g), r.Target(), inner) != nil {
						okAll = false
					}
				}
				if okAll && n > 0 {
					tE, fE := boolEdges(fn, call)
					if want {
						cuts.AddEdges(tE...)
					} else {
						cuts.AddEdges(fE...)
					}
				}
			}
		}
	})
	return cuts
}

// isWireByte0: v is byte 0 of a buffer that filler filled from the wire (argument argIdx) - loaded in fn, or
// handed back as a result by a same-module helper whose every non-error return hands back such a byte.
func (p *Prog) isWireByte0(fn *ssa.Function, v ssa.Value, filler types.Object, argIdx int, depth int) bool {
	if u, ok := v.(*ssa.UnOp); ok && u.Op == token.MUL {
		if ia, ok := u.X.(*ssa.IndexAddr); ok {
			if i, isC := constInt(ia.Index); isC && i == 0 {
				return p.filledBy(fn, ia.X, filler, argIdx, 3)
			}
		}
		return false
	}
	if depth <= 0 {
		return false
	}
	call, idx := originCall(v)
	if call == nil {
		return false
	}
	g := calleeFn(call)
	if !isModuleFn(g) || g == fn {
		return false
	}
	n := 0
	for _, r := range p.returnsOf(g) {
		if r.Class == "error" || idx >= len(r.Ret.Results) {
			continue
		}
		n++
		okRet := false
		for _, o := range origins(g, r.Ret.Results[idx]) {
			if p.isWireByte0(g, o, filler, argIdx, depth-1) {
				okRet = true
			} else {
				okRet = false
				break
			}
		}
		if !okRet {
			return false
		}
	}
	return n > 0
}
