package main

// Rules added after the second round of independently seeded changes (DESIGN.md section 9.8): ownership of
// buffers (no aliasing of internal or caller memory), choke point for frame writes, immutability of the wire
// header and of key material, no blocking I/O inside the lookup-renew-store sequence, capped reader never
// drains, counted reads indexed only within the count.

import (
	"fmt"
	"go/token"
	"go/types"

	"golang.org/x/tools/go/ssa"
)

func init() {
	register("C01", c01r7, c04r2) // C04-R2 imported: a frame both ends hash identically is part of "accepted by the sender => accepted by the receiver" once the key is installed
	register("C02", c02r8, c02r9)
	register("C04", c04r7)
	register("C06", c06r10, c06r11)
	register("C13", c13r9, c13r10)
}

func isByteSlice(t types.Type) bool {
	sl, ok := t.Underlying().(*types.Slice)
	if !ok {
		return false
	}
	b, ok := sl.Elem().Underlying().(*types.Basic)
	return ok && b.Kind() == types.Byte
}

// valueRoots walks v back through slices, phis and conversions to the values it may alias.
func aliasRoots(v ssa.Value) []ssa.Value {
	seen := map[ssa.Value]bool{}
	var out []ssa.Value
	var walk func(v ssa.Value, d int)
	walk = func(v ssa.Value, d int) {
		if v == nil || seen[v] || d > 30 {
			return
		}
		seen[v] = true
		switch x := v.(type) {
		case *ssa.Slice:
			walk(x.X, d+1)
		case *ssa.Phi:
			for _, e := range x.Edges {
				walk(e, d+1)
			}
		case *ssa.ChangeType:
			walk(x.X, d+1)
		case *ssa.Extract:
			out = append(out, v)
		default:
			out = append(out, v)
		}
	}
	walk(v, 0)
	return out
}

// C01-R7: the stream never keeps a caller's slice as one of its own buffers.
func c01r7(c *Ctx) {
	const rule = "C01-R7"
	c.Doc(rule, "no method of stream.Stream stores a []byte parameter (or a re-slice of one) into a []byte field of the stream: buffered data is copied (append / copy), so a caller that reuses its scratch slice for the next chunk cannot change bytes that are still waiting to be framed")
	n := 0
	for _, fn := range c.FnsOfPkg("stream") {
		if len(fn.Params) == 0 {
			continue
		}
		params := map[ssa.Value]bool{}
		for _, p := range fn.Params {
			if isByteSlice(p.Type()) {
				params[p] = true
			}
		}
		if len(params) == 0 {
			continue
		}
		n++
		bad := false
		allInstrs(fn, func(_ *ssa.BasicBlock, _ int, in ssa.Instruction) {
			st, ok := in.(*ssa.Store)
			if !ok {
				return
			}
			fa, ok := st.Addr.(*ssa.FieldAddr)
			if !ok || !isByteSlice(st.Val.Type()) {
				return
			}
			for _, r := range aliasRoots(st.Val) {
				if params[r] {
					bad = true
					c.Violate(rule, fnName(fn)+"#retains:"+fieldOfAddr(fa).Name(), "stores the caller's slice (not a copy) into Stream."+fieldOfAddr(fa).Name()+": the caller reusing its buffer changes bytes that have not been sent yet", st.Pos())
				}
			}
		})
		if !bad {
			c.Ok(rule, fnName(fn)+"#copies", "never retains a []byte argument in a stream field", fn.Pos())
		}
	}
	c.MinCount(rule, "stream functions with []byte parameters", n, 3)
}

// C02-R8: decoded byte values are private copies.
func c02r8(c *Ctx) {
	const rule = "C02-R8"
	c.Doc(rule, "no exported method of message.Message returns a []byte that aliases the frame buffer (a result of bytes.Buffer.Next / Bytes on Message.buffer, directly or re-sliced): the buffer is overwritten when the next frame is pulled in, so a value already handed to the application would change under it")
	buf := c.needField(rule, "message", "Message", "buffer")
	if buf == nil {
		return
	}
	n := 0
	for _, fn := range c.FnsOfPkg("message") {
		if fn.Parent() != nil || fn.Object() == nil || !fn.Object().Exported() {
			continue
		}
		hasSliceResult := false
		for i := 0; i < fn.Signature.Results().Len(); i++ {
			if isByteSlice(fn.Signature.Results().At(i).Type()) {
				hasSliceResult = true
			}
		}
		if !hasSliceResult || fn.Signature.Recv() == nil {
			continue
		}
		n++
		bad := false
		for _, b := range fn.Blocks {
			if len(b.Instrs) == 0 {
				continue
			}
			ret, ok := b.Instrs[len(b.Instrs)-1].(*ssa.Return)
			if !ok {
				continue
			}
			for _, rv := range ret.Results {
				if !isByteSlice(rv.Type()) {
					continue
				}
				for _, r := range aliasRoots(rv) {
					call, ok := r.(*ssa.Call)
					if !ok {
						continue
					}
					o := calleeObj(call)
					if o == nil || o.Pkg() == nil || o.Pkg().Path() != "bytes" || (o.Name() != "Next" && o.Name() != "Bytes") || len(call.Call.Args) == 0 {
						continue
					}
					if _, f, isF := fieldRead(call.Call.Args[0]); isF && f == buf {
						bad = true
						c.Violate(rule, fnName(fn)+"#returns-buffer-alias", "returns a slice of the frame buffer itself ("+o.Name()+"): the bytes change when a later read pulls in the next frame", ret.Pos())
					}
				}
			}
		}
		if !bad {
			c.Ok(rule, fnName(fn)+"#returns-copy", "its []byte results do not alias the frame buffer", fn.Pos())
		}
	}
	c.MinCount(rule, "exported Message methods returning []byte", n, 2)
}

// C02-R9: every byte the typed layer sends goes through its frame buffer.
func c02r9(c *Ctx) {
	const rule = "C02-R9"
	c.Doc(rule, "StreamInterface.WriteFrame is called, in package message, only by FlushFrame (or a helper only it calls) and always with the frame buffer's content: nothing overtakes data that is already buffered, so values arrive in the order they were put")
	flush := c.needFn(rule, "message", "(*Message).FlushFrame")
	buf := c.needField(rule, "message", "Message", "buffer")
	wf := c.msgIfaceMethod(rule, "WriteFrame")
	if flush == nil || buf == nil || wf == nil {
		return
	}
	var fns []*ssa.Function
	poss := map[*ssa.Function]token.Pos{}
	n := 0
	for _, fn := range c.FnsOfPkg("message") {
		for _, cs := range callsIn(fn, wf) {
			n++
			fns = append(fns, fn)
			poss[fn] = cs.Pos()
			args := cs.Common().Args
			ok := false
			if len(args) >= 2 {
				for _, r := range aliasRoots(args[1]) {
					if call, isCall := r.(*ssa.Call); isCall {
						if o := calleeObj(call); o != nil && o.Pkg() != nil && o.Pkg().Path() == "bytes" && o.Name() == "Bytes" && len(call.Call.Args) > 0 {
							if _, f, isF := fieldRead(call.Call.Args[0]); isF && f == buf {
								ok = true
							}
						}
					}
				}
			}
			c.Check(ok, rule, fnName(fn)+"#WriteFrame(buffer)", "the frame handed to the stream is the frame buffer's content", "a frame is written from something other than the frame buffer: bytes put earlier and still buffered would arrive after it", cs.Pos())
		}
	}
	c.whoMayDeep(rule, "call StreamInterface.WriteFrame", fns, poss, fnSet(flush))
	c.MinCount(rule, "WriteFrame call sites in package message", n, 1)
}

// C04-R7: the header read from the wire is hashed and authenticated as received.
func c04r7(c *Ctx) {
	const rule = "C04-R7"
	c.Doc(rule, "in the frame receivers (and their same-package helpers) nothing is stored into the header buffer that readWithContext filled: the bytes that feed the receive digest and the AEAD's associated data are the bytes the peer sent (normalising the end flag in place would let an on-path party change it unnoticed)")
	rwc := c.needFn(rule, "stream", "(*Stream).readWithContext")
	hdrSize := c.needObj(rule, "stream", "NormalHeaderSize")
	if rwc == nil || hdrSize == nil {
		return
	}
	hs, _ := constantInt(hdrSize)
	n := 0
	var roots []*ssa.Function
	for _, name := range []string{"(*Stream).ReceiveFrame", "(*Stream).ReceiveFrameWithEnd"} {
		if f := c.needFn(rule, "stream", name); f != nil {
			roots = append(roots, f)
		}
	}
	for fn := range c.reachableFns(roots, false) {
		if fnPkg(fn) != fnPkg(rwc) || fn == rwc {
			continue
		}
		// header buffers: buffers of NormalHeaderSize bytes handed to readWithContext in fn
		hdrs := map[ssa.Value]bool{}
		for _, cs := range callsIn(fn, rwc.Object()) {
			b := cs.Common().Args[2]
			if l := c01LenLin(b); l.isConst() && l.k == hs {
				hdrs[memRoot(b)] = true
			}
		}
		// and header parameters every caller fills that way
		for _, p := range fn.Params {
			if isByteSlice(p.Type()) && c.filledBy(fn, p, rwc.Object(), 2, 2) && c13ParamMinLen(c, fn, p) == hs {
				hdrs[p] = true
			}
		}
		if len(hdrs) == 0 {
			continue
		}
		n++
		bad := false
		allInstrs(fn, func(_ *ssa.BasicBlock, _ int, in ssa.Instruction) {
			switch x := in.(type) {
			case *ssa.Store:
				if hdrs[memRoot(x.Addr)] {
					bad = true
					c.Violate(rule, fnName(fn)+"#header-modified", "stores into the header buffer read from the wire: the digest / associated data would no longer be what the peer sent", x.Pos())
				}
			case *ssa.Call:
				if b, ok := x.Call.Value.(*ssa.Builtin); ok && b.Name() == "copy" && len(x.Call.Args) == 2 && hdrs[memRoot(x.Call.Args[0])] {
					bad = true
					c.Violate(rule, fnName(fn)+"#header-modified", "copies into the header buffer read from the wire", x.Pos())
				}
			}
		})
		if !bad {
			c.Ok(rule, fnName(fn)+"#header-untouched", "the wire header is only read", fn.Pos())
		}
	}
	c.MinCount(rule, "functions holding a wire header buffer", n, 1)
}

// C06-R10: no blocking I/O between finding a session and storing it back.
func c06r10(c *Ctx) {
	const rule = "C06-R10"
	c.Doc(rule, "in handleSessionResumption no call that can block on the connection (anything from which the stream's read/write wrappers are reachable) lies on a path between the cache lookup and cache.Store(entry): the entry is not held across a slow peer's reply, so an Invalidate or expiry that happens meanwhile is not undone by a late write-back")
	fn := c.needFn(rule, "security", "(*Authenticator).handleSessionResumption")
	store := c.needObj(rule, "security", "SessionCache.Store")
	lookup := c.needObj(rule, "security", "SessionCache.LookupNonExpired")
	rwc := c.needFn(rule, "stream", "(*Stream).readWithContext")
	wwc := c.needFn(rule, "stream", "(*Stream).writeWithContext")
	if fn == nil || store == nil || lookup == nil || rwc == nil || wwc == nil {
		return
	}
	// functions from which the blocking wrappers are reachable (call graph, module functions)
	blocking := map[*ssa.Function]bool{rwc: true, wwc: true}
	cg := c.CG()
	changed := true
	for changed {
		changed = false
		for f, node := range cg.Nodes {
			if f == nil || blocking[f] || !isModuleFn(f) {
				continue
			}
			for _, e := range node.Out {
				if blocking[e.Callee.Func] {
					blocking[f] = true
					changed = true
					break
				}
			}
		}
	}
	var ios []ssa.Instruction
	allInstrs(fn, func(_ *ssa.BasicBlock, _ int, in ssa.Instruction) {
		call, ok := in.(ssa.CallInstruction)
		if !ok {
			return
		}
		if g := calleeFn(call); g != nil && blocking[g] {
			ios = append(ios, in)
			return
		}
		if call.Common().IsInvoke() {
			if node := cg.Nodes[fn]; node != nil {
				for _, e := range node.Out {
					if e.Site == call && blocking[e.Callee.Func] {
						ios = append(ios, in)
						return
					}
				}
			}
		}
	})
	n := 0
	for _, st := range c.callsInDeep(fn, store) {
		n++
		bad := ""
		var pos token.Pos = st.Pos()
		for _, lk := range c.callsInDeep(fn, lookup) {
			for _, io := range ios {
				// lookup ... io ... store on one path?
				if findPath(after(lk.(ssa.Instruction)), Target{Instr: io}, nil) != nil && findPath(after(io), Target{Instr: st.(ssa.Instruction)}, nil) != nil {
					bad = c.Pos(io.Pos())
				}
			}
		}
		c.Check(bad == "", rule, fnName(fn)+"#Store-before-reply", "the renewed entry is stored before any blocking I/O", "a blocking call ("+bad+") lies between the lookup and cache.Store(entry): an invalidation during that I/O is overwritten by the late Store and the dead session can be resumed again", pos)
	}
	c.MinCount(rule, "blocking calls found in handleSessionResumption", len(ios), 1)
	c.MinCount(rule, "Store call sites", n, 1)
}

// C06-R11: key material is never modified in place.
func c06r11(c *Ctx) {
	const rule = "C06-R11"
	c.Doc(rule, "no library function writes elements of the byte slice held in SecurityNegotiation.sharedSecret (element stores, copy/clear into it): storeSession caches that very slice as the session key, so scrubbing or editing it in place would leave an all-zero or altered key under a still-cached, resumable identity")
	secret := c.needField(rule, "security", "SecurityNegotiation", "sharedSecret")
	if secret == nil {
		return
	}
	n := 0
	bad := false
	for _, fn := range c.FnsOfPkg("security") {
		isSecret := func(v ssa.Value) bool {
			for _, r := range aliasRoots(v) {
				if _, f, ok := fieldRead(r); ok && f == secret {
					return true
				}
			}
			return false
		}
		allInstrs(fn, func(_ *ssa.BasicBlock, _ int, in ssa.Instruction) {
			switch x := in.(type) {
			case *ssa.UnOp:
				if _, f, ok := fieldRead(x); ok && f == secret {
					n++
				}
			case *ssa.Store:
				if ia, ok := x.Addr.(*ssa.IndexAddr); ok && isSecret(ia.X) {
					bad = true
					c.Violate(rule, fnName(fn)+"#writes-key-bytes", "writes into the bytes of the shared secret in place (the session cache holds the same slice)", x.Pos())
				}
			case *ssa.Call:
				if b, ok := x.Call.Value.(*ssa.Builtin); ok && (b.Name() == "copy" || b.Name() == "clear") && len(x.Call.Args) > 0 && isSecret(x.Call.Args[0]) {
					bad = true
					c.Violate(rule, fnName(fn)+"#writes-key-bytes", b.Name()+"() into the shared secret in place (the session cache holds the same slice)", x.Pos())
				}
			}
		})
	}
	if !bad {
		c.Ok(rule, "sharedSecret-immutable", "the shared secret's bytes are never modified in place", token.NoPos)
	}
	c.MinCount(rule, "reads of SecurityNegotiation.sharedSecret", n, 1)
}

// C13-R9: the capped string reader never drains what it refuses to buffer.
func c13r9(c *Ctx) {
	const rule = "C13-R9"
	c.Doc(rule, "GetStringWithMaxSize (with its same-package helpers) reaches no unbounded consumer - discard, SkipString, GetString, GetRemainingBytes: once the cap is exceeded it fails instead of following the peer's claimed length frame after frame")
	fn := c.needFn(rule, "message", "(*Message).GetStringWithMaxSize")
	if fn == nil {
		return
	}
	var banned []*ssa.Function
	for _, name := range []string{"(*Message).discard", "(*Message).SkipString", "(*Message).GetString", "(*Message).GetRemainingBytes"} {
		if g := c.needFn(rule, "message", name); g != nil {
			banned = append(banned, g)
		}
	}
	reach := c.reachableFns([]*ssa.Function{fn}, false)
	bad := false
	for _, g := range banned {
		if reach[g] {
			bad = true
			c.Violate(rule, fnName(fn)+"#reaches:"+g.Name(), "the capped reader can call "+g.Name()+", which consumes as much as the peer announces", fn.Pos())
		}
	}
	if !bad {
		c.Ok(rule, fnName(fn)+"#bounded-consumers-only", "no unbounded consumer is reachable from the capped reader", fn.Pos())
	}
	c.MinCount(rule, "unbounded consumers known", len(banned), 3)
}

// geqEdgesOn: edges of fn on which a value satisfying isRoot (conversions stripped) is known >= need, by a
// comparison with a constant.
func geqEdgesOn(fn *ssa.Function, isRoot func(ssa.Value) bool, need int64) []Edge {
	strip := func(v ssa.Value) ssa.Value {
		for {
			switch x := v.(type) {
			case *ssa.Convert:
				v = x.X
			case *ssa.ChangeType:
				v = x.X
			default:
				return v
			}
		}
	}
	var out []Edge
	for _, b := range fn.Blocks {
		ifi := blockIf(b)
		if ifi == nil {
			continue
		}
		a := condAtom(ifi.Cond)
		if a.Op == token.ILLEGAL {
			continue
		}
		op := a.Op
		var k int64
		var isK bool
		if isRoot(strip(a.X)) {
			k, isK = constInt(a.Y)
		} else if isRoot(strip(a.Y)) {
			k, isK = constInt(a.X)
			switch op {
			case token.LSS:
				op = token.GTR
			case token.LEQ:
				op = token.GEQ
			case token.GTR:
				op = token.LSS
			case token.GEQ:
				op = token.LEQ
			}
		} else {
			continue
		}
		if !isK {
			continue
		}
		var tEdge, fEdge bool
		switch op {
		case token.GEQ:
			tEdge = k >= need
		case token.GTR:
			tEdge = k+1 >= need
		case token.LSS:
			fEdge = k >= need
		case token.LEQ:
			fEdge = k+1 >= need
		case token.EQL:
			tEdge = k >= need
		}
		if a.Neg {
			tEdge, fEdge = fEdge, tEdge
		}
		if tEdge {
			out = append(out, Edge{b, 0})
		}
		if fEdge {
			out = append(out, Edge{b, 1})
		}
	}
	return out
}

// C13-R10: bytes obtained with GetBytes(n) are indexed only within n.
func c13r10(c *Ctx) {
	const rule = "C13-R10"
	c.Doc(rule, "in package message every constant-offset index or slice of a buffer returned by GetBytes(ctx, n) is dominated by an edge establishing n >= offset (or len(buffer) >= offset) through a comparison with a constant: a peer-chosen count that is zero or negative yields an error, not an index-out-of-range panic")
	gb := c.needFn(rule, "message", "(*Message).GetBytes")
	if gb == nil {
		return
	}
	n := 0
	// constOffsets lists the constant-offset accesses to buffer value buf inside fn: (instruction, bytes needed)
	type acc struct {
		in   ssa.Instruction
		need int64
	}
	constOffsets := func(fn *ssa.Function, isBuf func(ssa.Value) bool) []acc {
		var out []acc
		allInstrs(fn, func(_ *ssa.BasicBlock, _ int, in ssa.Instruction) {
			var buf ssa.Value
			need := int64(0)
			switch x := in.(type) {
			case *ssa.IndexAddr:
				buf = x.X
				if k, ok := constInt(x.Index); ok {
					need = k + 1
				}
			case *ssa.Slice:
				buf = x.X
				for _, op := range []ssa.Value{x.Low, x.High} {
					if op != nil {
						if k, ok := constInt(op); ok && k > need {
							need = k
						}
					}
				}
			default:
				return
			}
			if need > 0 && isByteSlice(buf.Type()) && isBuf(buf) {
				out = append(out, acc{in, need})
			}
		})
		return out
	}
	for _, fn := range c.FnsOfPkg("message") {
		for _, cs := range callsIn(fn, gb.Object()) {
			bufV := extractN(cs.Value(), 0)
			if bufV == nil {
				continue
			}
			count := cs.Common().Args[len(cs.Common().Args)-1]
			root := count
			for {
				if cv, ok := root.(*ssa.Convert); ok {
					root = cv.X
					continue
				}
				break
			}
			isRoot := func(v ssa.Value) bool { return v == root || v == count }
			fromCall := func(v ssa.Value) bool {
				call, idx := originCall(v)
				return call != nil && idx == 0 && call == cs
			}
			check := func(at ssa.Instruction, need int64, where string, pos token.Pos) {
				n++
				cuts := newCuts().AddEdges(geqEdgesOn(fn, isRoot, need)...).AddEdges(c13LenGeqEdges(fn, bufV, need)...)
				// the same comparison made inside a boolean helper handed the count, or kept in a local boolean
				top := cxTop(fn)
				deep := c.cxFactCuts(top, func(fr *cxFrame, a Atom) (bool, bool) {
					if a.Op == token.ILLEGAL || a.X == nil || a.Y == nil {
						return false, false
					}
					isR := func(v ssa.Value) bool {
						r := fr.resolve(v)
						return r.fr == top && isRoot(stripConv(r.v))
					}
					op := a.Op
					var k int64
					var isK bool
					if isR(a.X) {
						k, isK = constInt(a.Y)
					} else if isR(a.Y) {
						k, isK = constInt(a.X)
						switch op {
						case token.LSS:
							op = token.GTR
						case token.LEQ:
							op = token.GEQ
						case token.GTR:
							op = token.LSS
						case token.GEQ:
							op = token.LEQ
						}
					}
					if !isK {
						return false, false
					}
					var tE, fE bool
					switch op {
					case token.GEQ:
						tE = k >= need
					case token.GTR:
						tE = k+1 >= need
					case token.LSS:
						fE = k >= need
					case token.LEQ:
						fE = k+1 >= need
					case token.EQL:
						tE = k >= need
					}
					if a.Neg {
						tE, fE = fE, tE
					}
					return tE, fE
				}, 3)
				for e := range deep.Edges {
					cuts.AddEdges(e)
				}
				for v := range deep.Via {
					cuts.Via[v] = true
				}
				construct := fmt.Sprintf("%s#GetBytes-result@offset%d%s", fnName(fn), need, where)
				if p := findPath(entryPoint(fn), Target{Instr: at}, cuts); p != nil {
					c.Violate(rule, construct, fmt.Sprintf("a buffer of peer-chosen length n is indexed at a constant offset needing %d byte(s) without n >= %d having been established: n <= 0 panics", need, need), pos, c.describePath(p)...)
				} else {
					c.Ok(rule, construct, fmt.Sprintf("dominated by n >= %d", need), pos)
				}
			}
			for _, a := range constOffsets(fn, fromCall) {
				check(a.in, a.need, "", a.in.Pos())
			}
			// the buffer handed to a same-package helper: the helper's constant offsets into that parameter must be
			// covered by what is established before the call
			allInstrs(fn, func(_ *ssa.BasicBlock, _ int, in ssa.Instruction) {
				call, ok := in.(*ssa.Call)
				if !ok {
					return
				}
				g := calleeFn(call)
				if !isModuleFn(g) || fnPkg(g) != fnPkg(fn) {
					return
				}
				for i, a := range call.Call.Args {
					if !fromCall(a) || i >= len(g.Params) {
						continue
					}
					par := g.Params[i]
					for _, ac := range constOffsets(g, func(v ssa.Value) bool { return v == ssa.Value(par) }) {
						// unless the helper guards it itself
						if findPath(entryPoint(g), Target{Instr: ac.in}, newCuts().AddEdges(c13LenGeqEdges(g, par, ac.need)...)) == nil {
							n++
							continue
						}
						check(in, ac.need, " via "+g.Name(), ac.in.Pos())
					}
				}
			})
		}
	}
	c.MinCount(rule, "constant offsets into GetBytes results", n, 1)
}

func init() {
	register("C03", c03r8)
	register("C07", c07r7)
	register("C08", c08r6)
	register("C10", c10r7)
	register("C11", c11r9)
}

// isClassAdMethodCall: call is a method call on a *classad.ClassAd named one of names.
func isClassAdMethodCall(call *ssa.Call, names ...string) bool {
	o := calleeObj(call)
	if o == nil || o.Pkg() == nil || o.Pkg().Name() != "classad" {
		return false
	}
	for _, n := range names {
		if o.Name() == n {
			return true
		}
	}
	return false
}

// C03-R8: the resumption path judges the session by the policy of the command that is resumed.
func c03r8(c *Ctx) {
	const rule = "C03-R8"
	c.Doc(rule, "in handleSessionResumption (and same-package helpers only it calls) the command handed to the per-command policy selector ServerConfigForCommand depends on the Command attribute of the client's resumption ad - the command the session is being resumed for - not only on the wire command, which is always DC_AUTHENTICATE: REQUIRED authentication of the resumed command's policy is what is enforced")
	fn := c.needFn(rule, "security", "(*Authenticator).handleSessionResumption")
	sel := c.needField(rule, "security", "Authenticator", "ServerConfigForCommand")
	if fn == nil || sel == nil {
		return
	}
	n := 0
	scope := []*ssa.Function{fn}
	for f := range c.reachableFns([]*ssa.Function{fn}, false) {
		if f != fn && fnPkg(f) == fnPkg(fn) && c.onlyReachableFrom(f, fnSet(fn)) {
			scope = append(scope, f)
		}
	}
	for _, f := range scope {
		f := f
		allInstrs(f, func(_ *ssa.BasicBlock, _ int, in ssa.Instruction) {
			call, ok := in.(*ssa.Call)
			if !ok || call.Call.IsInvoke() || !readsField(call.Call.Value, sel) || len(call.Call.Args) != 1 {
				return
			}
			n++
			fromAd := c.mustDependDeep(f, call.Call.Args[0], func(v ssa.Value) bool {
				cc, isCall := v.(*ssa.Call)
				if !isCall || !isClassAdMethodCall(cc, "EvaluateAttrInt", "EvaluateAttrNumber", "EvaluateAttrString") || len(cc.Call.Args) < 2 {
					return false
				}
				name, isC := constString(cc.Call.Args[1])
				return isC && name == "Command"
			})
			// mustDepend is AND over phi edges; the fallback edge (attribute absent) legitimately carries the wire command,
			// so accept a phi one of whose incoming values depends on the attribute
			if !fromAd {
				for _, o := range origins(f, call.Call.Args[0]) {
					if ex, isEx := o.(*ssa.Extract); isEx {
						if cc, isCall := ex.Tuple.(*ssa.Call); isCall && isClassAdMethodCall(cc, "EvaluateAttrInt", "EvaluateAttrNumber") && len(cc.Call.Args) >= 2 {
							if name, isC := constString(cc.Call.Args[1]); isC && name == "Command" {
								fromAd = true
							}
						}
					}
				}
			}
			c.Check(fromAd, rule, fnName(f)+"#policy-command", "the per-command policy is selected by the resumed command (client ad's Command)", "the per-command policy of a resumption is looked up under a command that does not come from the client's resumption ad: the resumed command's REQUIRED level is never consulted (the wire command is always DC_AUTHENTICATE)", call.Pos())
		})
	}
	c.MinCount(rule, "ServerConfigForCommand calls on the resumption path", n, 1)
}

// C07-R7: the server address is keyed whole.
func c07r7(c *Ctx) {
	const rule = "C07-R7"
	c.Doc(rule, "in SessionCache.LookupByCommand / MapCommand (and same-package helpers only they call) the address parameter reaches the command-map key unchanged: it is not sliced, cut, split or otherwise rewritten on the way (two daemons behind one shared-port endpoint differ only in the parameters of their sinful string)")
	n := 0
	var roots []*ssa.Function
	for _, name := range []string{"(*SessionCache).LookupByCommand", "(*SessionCache).MapCommand"} {
		if f := c.needFn(rule, "security", name); f != nil {
			roots = append(roots, f)
		}
	}
	if len(roots) == 0 {
		return
	}
	rootSet := fnSet(roots...)
	type item struct {
		fn  *ssa.Function
		par ssa.Value
	}
	var work []item
	for _, f := range roots {
		// the address is the second string parameter after the receiver (tag, addr, command...)
		strs := []ssa.Value{}
		for _, p := range f.Params {
			if b, ok := p.Type().Underlying().(*types.Basic); ok && b.Info()&types.IsString != 0 {
				strs = append(strs, p)
			}
		}
		if len(strs) < 2 {
			c.Undecided(rule, fnName(f)+"#addr-param", "cannot identify the address parameter", f.Pos())
			continue
		}
		work = append(work, item{f, strs[1]})
	}
	seen := map[ssa.Value]bool{}
	for len(work) > 0 {
		it := work[0]
		work = work[1:]
		if seen[it.par] {
			continue
		}
		seen[it.par] = true
		n++
		bad := false
		// values carrying the address unchanged: the parameter, phis/conversions of it
		carriers := map[ssa.Value]bool{it.par: true}
		changed := true
		for changed {
			changed = false
			allInstrs(it.fn, func(_ *ssa.BasicBlock, _ int, in ssa.Instruction) {
				switch x := in.(type) {
				case *ssa.Phi:
					for _, e := range x.Edges {
						if carriers[e] && !carriers[x] {
							carriers[x] = true
							changed = true
						}
					}
				case *ssa.ChangeType:
					if carriers[x.X] && !carriers[x] {
						carriers[x] = true
						changed = true
					}
				}
			})
		}
		allInstrs(it.fn, func(_ *ssa.BasicBlock, _ int, in ssa.Instruction) {
			switch x := in.(type) {
			case *ssa.Slice:
				if carriers[x.X] {
					bad = true
					c.Violate(rule, fnName(it.fn)+"#addr-rewritten", "the server address is sliced before it is used as a key component", x.Pos())
				}
			case *ssa.Call:
				o := calleeObj(x)
				for i, a := range x.Call.Args {
					if !carriers[a] {
						continue
					}
					if o != nil && o.Pkg() != nil && (o.Pkg().Path() == "strings" || o.Pkg().Path() == "net" || o.Pkg().Path() == "net/url" || o.Pkg().Path() == "regexp") {
						// comparisons / emptiness tests are fine; anything producing a string from it is a rewrite
						if sig, ok := o.Type().(*types.Signature); ok && sig.Results().Len() > 0 {
							if b, isB := sig.Results().At(0).Type().Underlying().(*types.Basic); isB && b.Kind() == types.Bool {
								continue
							}
						}
						bad = true
						c.Violate(rule, fnName(it.fn)+"#addr-rewritten", "the server address is passed through "+o.Pkg().Name()+"."+o.Name()+" before it is used as a key component", x.Pos())
						continue
					}
					// follow same-package helpers only these functions call (e.g. a shared key builder)
					if g := calleeFn(x); isModuleFn(g) && fnPkg(g) == fnPkg(it.fn) && i < len(g.Params) && (rootSet[g] || c.onlyReachableFrom(g, rootSet)) {
						work = append(work, item{g, g.Params[i]})
					}
				}
			}
		})
		if !bad {
			c.Ok(rule, fnName(it.fn)+"#addr-whole", "the address is used as given", it.fn.Pos())
		}
	}
	c.MinCount(rule, "address parameters followed", n, 2)
}

// C08-R6: after a SecretMarker nothing is pulled from the stream outside the crypto-for-secret bracket.
//
// The rule is not tied to particular receivers: every branch of package message whose outcome means "the
// expression just read is the SecretMarker" is a starting point, and the search runs over the control flow
// with same-module helpers spliced in (cxSearch), so the marker test, the bracket and the read may each live
// in a helper of their own.
func c08r6(c *Ctx) {
	const rule = "C08-R6"
	c.Doc(rule, "from every branch outcome in package message that establishes 'this expression is the SecretMarker' (a comparison with the constant, a boolean helper that makes it, or the boolean result of a call handed the constant) no path - followed through same-module helpers - reaches a pull of stream data (a call of ensureData or an invoke of ReadFrame) without first passing PrepareCryptoForSecret or the edge on which the stream has no such toggle (failed type assertion / nil toggle): the frame that follows a marker was written under the temporary crypto state and must not be pulled in (e.g. by an extra ensureData) while that state is still off")
	marker := c.needObj(rule, "message", "SecretMarker")
	ens := c.needFn(rule, "message", "(*Message).ensureData")
	if marker == nil || ens == nil {
		return
	}
	mk, _ := marker.(*types.Const)
	mval := ""
	if mk != nil {
		mval, _ = constantToString(mk)
	}
	isMarkerConst := func(v ssa.Value) bool {
		s, ok := constString(v)
		return ok && s == mval
	}
	hasToggle := func(t types.Type) bool {
		it, ok := t.Underlying().(*types.Interface)
		if !ok {
			return false
		}
		for i := 0; i < it.NumMethods(); i++ {
			if it.Method(i).Name() == "PrepareCryptoForSecret" {
				return true
			}
		}
		return false
	}
	// predicate(g): +1 when g returns "x == SecretMarker" on every return, -1 for "!=", 0 otherwise
	predicate := func(g *ssa.Function) int {
		if g == nil || g.Blocks == nil || g.Signature.Results().Len() != 1 {
			return 0
		}
		pol := 0
		for _, r := range cxReturns(g) {
			a := condAtom(r.Results[0])
			if (a.Op != token.EQL && a.Op != token.NEQ) || !(isMarkerConst(a.X) || isMarkerConst(a.Y)) {
				return 0
			}
			p := 1
			if (a.Op == token.NEQ) != a.Neg {
				p = -1
			}
			if pol != 0 && pol != p {
				return 0
			}
			pol = p
		}
		return pol
	}
	markerEdges := func(fn *ssa.Function) []Edge {
		var out []Edge
		for _, b := range fn.Blocks {
			ifi := blockIf(b)
			if ifi == nil {
				continue
			}
			a := condAtom(ifi.Cond)
			switch a.Op {
			case token.EQL, token.NEQ:
				if isMarkerConst(a.X) || isMarkerConst(a.Y) {
					eq := a.Op == token.EQL
					if a.Neg {
						eq = !eq
					}
					if eq {
						out = append(out, Edge{b, 0})
					} else {
						out = append(out, Edge{b, 1})
					}
				}
			case token.ILLEGAL:
				for _, o := range origins(fn, a.X) {
					oc, _ := originCall(o)
					if oc == nil {
						continue
					}
					pos := false
					neg := false
					if p := predicate(calleeFn(oc)); p != 0 {
						pos, neg = p > 0, p < 0
					} else {
						for _, arg := range oc.Common().Args {
							if isMarkerConst(arg) {
								pos = true
							}
						}
					}
					if a.Neg {
						pos, neg = neg, pos
					}
					if pos {
						out = append(out, Edge{b, 0})
					}
					if neg {
						out = append(out, Edge{b, 1})
					}
				}
			}
		}
		return out
	}
	cls := map[*ssa.Function][]RetPoint{}
	search := &cxSearch{
		errRet: func(fn *ssa.Function, ret *ssa.Return, via *ssa.BasicBlock) bool {
			rs, ok := cls[fn]
			if !ok {
				rs = c.returnsOf(fn)
				cls[fn] = rs
			}
			for _, r := range rs {
				if r.Ret == ret && (r.Pred == nil || r.Pred == via) {
					return r.Class == "error"
				}
			}
			return false
		},
		target: func(fr *cxFrame, in ssa.Instruction, _ *ssa.BasicBlock) bool {
			call, ok := in.(ssa.CallInstruction)
			if !ok {
				return false
			}
			if call.Common().IsInvoke() {
				return call.Common().Method.Name() == "ReadFrame"
			}
			return calleeFn(call) == ens
		},
		cutInstr: func(fr *cxFrame, in ssa.Instruction) bool {
			call, ok := in.(ssa.CallInstruction)
			return ok && call.Common().IsInvoke() && call.Common().Method.Name() == "PrepareCryptoForSecret"
		},
		cutEdge: func(fr *cxFrame, e Edge) bool {
			ifi := blockIf(e.From)
			if ifi == nil {
				return false
			}
			a := condAtom(ifi.Cond)
			switch a.Op {
			case token.EQL, token.NEQ:
				var v ssa.Value
				if isNilConst(a.Y) {
					v = a.X
				} else if isNilConst(a.X) {
					v = a.Y
				}
				if v == nil || !hasToggle(v.Type()) {
					return false
				}
				nilOnTrue := a.Op == token.EQL
				if a.Neg {
					nilOnTrue = !nilOnTrue
				}
				return (nilOnTrue && e.Succ == 0) || (!nilOnTrue && e.Succ == 1)
			case token.ILLEGAL:
				ex, ok := a.X.(*ssa.Extract)
				if !ok || ex.Index != 1 {
					return false
				}
				ta, ok := ex.Tuple.(*ssa.TypeAssert)
				if !ok || !ta.CommaOk || !hasToggle(ta.AssertedType) {
					return false
				}
				falseSucc := 1
				if a.Neg {
					falseSucc = 0
				}
				return e.Succ == falseSucc
			}
			return false
		},
	}
	n := 0
	for _, fn := range c.FnsOfPkg("message") {
		edges := markerEdges(fn)
		if len(edges) == 0 {
			continue
		}
		n++
		var wit []*ssa.BasicBlock
		for _, e := range edges {
			if p := search.find(cxPoint{cxTop(fn), e.To(), 0}); p != nil && wit == nil {
				wit = p
			}
		}
		c.Check(wit == nil, rule, fnName(fn)+"#read-after-marker", "the first pull of stream data after a marker happens inside the crypto bracket", "after a SecretMarker the receiver pulls stream data before the crypto-for-secret bracket is open: the encrypted secret frame is taken in as cleartext", fn.Pos(), c.describePath(wit)...)
	}
	c.MinCount(rule, "functions that test for the SecretMarker", n, 1)
}

// C10-R7: the session identifier is always part of the post-authentication ad.
func c10r7(c *Ctx) {
	const rule = "C10-R7"
	c.Doc(rule, "every success return of createPostAuthAd passes a Set of the Sid attribute (here or in a helper): the client learns the session identifier on every successful handshake, with or without a key, so both ends report the same one")
	fn := c.needFn(rule, "security", "(*Authenticator).createPostAuthAd")
	if fn == nil {
		return
	}
	hit := func(in ssa.Instruction) bool {
		call, ok := in.(*ssa.Call)
		if !ok || !isClassAdMethodCall(call, "Set", "InsertAttr", "InsertAttrString") || len(call.Call.Args) < 3 {
			return false
		}
		s, isC := constString(call.Call.Args[1])
		return isC && s == "Sid"
	}
	always, _ := c.deepSites(fn, hit)
	tg := c.successTargets(fn)
	ok := len(always) > 0 && len(tg) > 0
	var wit []string
	for _, t := range tg {
		if p := findPath(entryPoint(fn), t.Target(), newCuts().AddInstrs(always...)); p != nil {
			ok = false
			wit = c.describePath(p)
		}
	}
	c.Check(ok, rule, fnName(fn)+"#sets:Sid", "the post-auth ad always carries Sid", "createPostAuthAd can succeed without setting Sid: the server records a session id the client never learns, so the two ends report different session identifiers", fn.Pos(), wit...)
	c.MinCount(rule, "Sid writers", len(always), 1)
}

// C11-R9: a signing key is never empty.
func c11r9(c *Ctx) {
	const rule = "C11-R9"
	c.Doc(rule, "every success return of loadSigningKey passes an edge on which a byte slice read for the key is known non-empty (len(key) != 0), tested here or inside a same-package helper on all of its success paths: an empty key file never counts as a signing key (anyone can compute signatures under the empty key)")
	fn := c.needFn(rule, "security", "(*Authenticator).loadSigningKey")
	if fn == nil {
		return
	}
	edgesOf := func(f *ssa.Function) []Edge {
		var es []Edge
		for _, b := range f.Blocks {
			root, _, nz, ok := zeroEdges(b)
			if !ok {
				continue
			}
			if call, isCall := root.(*ssa.Call); isCall {
				if bi, isB := call.Call.Value.(*ssa.Builtin); isB && bi.Name() == "len" && isByteSlice(call.Call.Args[0].Type()) {
					es = append(es, nz)
				}
			}
		}
		return es
	}
	cuts := c.condCutsDeep(fn, edgesOf, deepDepth)
	tg := c.successTargets(fn)
	n := 0
	for _, t := range tg {
		n++
		p := findPath(entryPoint(fn), t.Target(), cuts)
		c.Check(p == nil, rule, fmt.Sprintf("%s#return%d:non-empty", fnName(fn), retOrdinal(fn, t.Ret)), "behind a non-empty-key edge", "loadSigningKey can return a key without its emptiness having been tested: a zero-length key file yields the empty signing key", t.Ret.Pos(), c.describePath(p)...)
	}
	c.MinCount(rule, "success returns of loadSigningKey", n, 1)
}
