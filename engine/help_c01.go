package main

import (
	"go/token"
	"go/types"

	"golang.org/x/tools/go/ssa"
)

// ---------------------------------------------------------------------------
// C01 helpers: constant comparisons as upper bounds, a tiny upper-bound evaluator for
// integer SSA values, and the additive overhead of a "size after encryption" function.
// Nothing here is a range analysis: a bound is only ever (a) a constant, (b) the constant of a
// comparison on a dominating edge, (c) sums / phis / min() of such.

// c01Bound is an If that compares X with an integer constant: on edge Accept, X <= Max holds;
// Reject is the other edge.
type c01Bound struct {
	Block  *ssa.BasicBlock
	X      ssa.Value
	Max    int64
	Accept Edge
	Reject Edge
}

// c01BoundOf recognises "X > C", "X >= C", "X < C", "X <= C", "X == C" (constant on either side,
// any number of negations) at the end of block b.
func c01BoundOf(b *ssa.BasicBlock) (c01Bound, bool) {
	ifi := blockIf(b)
	if ifi == nil {
		return c01Bound{}, false
	}
	a := condAtom(ifi.Cond)
	if a.Op == token.ILLEGAL {
		return c01Bound{}, false
	}
	x, op := a.X, a.Op
	c, isC := constInt(a.Y)
	if !isC {
		// constant on the left: mirror the comparison
		c, isC = constInt(a.X)
		if !isC {
			return c01Bound{}, false
		}
		x = a.Y
		switch op {
		case token.GTR:
			op = token.LSS
		case token.GEQ:
			op = token.LEQ
		case token.LSS:
			op = token.GTR
		case token.LEQ:
			op = token.GEQ
		}
	}
	if _, isConst := x.(*ssa.Const); isConst {
		return c01Bound{}, false
	}
	if a.Neg { // !(x op c)  ==  x negop c
		switch op {
		case token.GTR:
			op = token.LEQ
		case token.GEQ:
			op = token.LSS
		case token.LSS:
			op = token.GEQ
		case token.LEQ:
			op = token.GTR
		case token.EQL:
			op = token.NEQ
		case token.NEQ:
			op = token.EQL
		}
	}
	t, f := Edge{b, 0}, Edge{b, 1}
	switch op {
	case token.GTR: // true: x > c ; false: x <= c
		return c01Bound{b, x, c, f, t}, true
	case token.GEQ: // false: x < c
		return c01Bound{b, x, c - 1, f, t}, true
	case token.LSS: // true: x < c
		return c01Bound{b, x, c - 1, t, f}, true
	case token.LEQ:
		return c01Bound{b, x, c, t, f}, true
	case token.EQL:
		return c01Bound{b, x, c, t, f}, true
	case token.NEQ:
		return c01Bound{b, x, c, f, t}, true
	}
	return c01Bound{}, false
}

// c01Strip removes integer conversions (a uint32 <-> int conversion of a length does not change
// the number in the ranges concerned here).
func c01Strip(v ssa.Value) ssa.Value {
	for {
		switch x := v.(type) {
		case *ssa.Convert:
			v = x.X
		case *ssa.ChangeType:
			v = x.X
		default:
			return v
		}
	}
}

func c01IsBuiltin(v ssa.Value, name string) (*ssa.Call, bool) {
	call, ok := v.(*ssa.Call)
	if !ok {
		return nil, false
	}
	b, ok := call.Call.Value.(*ssa.Builtin)
	if !ok || b.Name() != name {
		return nil, false
	}
	return call, true
}

// c01Same: a and b are the same number: identical SSA values modulo conversions, or len() of the
// same value.
func c01Same(a, b ssa.Value) bool {
	a, b = c01Strip(a), c01Strip(b)
	if a == b {
		return true
	}
	la, ok1 := c01IsBuiltin(a, "len")
	lb, ok2 := c01IsBuiltin(b, "len")
	return ok1 && ok2 && la.Call.Args[0] == lb.Call.Args[0]
}

// c01Geq: w >= v is evident from w's definition: w is v, v plus a non-negative constant, or a phi
// of such values.
func c01Geq(w, v ssa.Value, depth int) bool {
	if depth > 8 {
		return false
	}
	if c01Same(w, v) {
		return true
	}
	switch x := c01Strip(w).(type) {
	case *ssa.BinOp:
		if x.Op != token.ADD {
			return false
		}
		if c, ok := constInt(x.Y); ok && c >= 0 {
			return c01Geq(x.X, v, depth+1)
		}
		if c, ok := constInt(x.X); ok && c >= 0 {
			return c01Geq(x.Y, v, depth+1)
		}
	case *ssa.Phi:
		for _, e := range x.Edges {
			if !c01Geq(e, v, depth+1) {
				return false
			}
		}
		return len(x.Edges) > 0
	}
	return false
}

// c01UB returns an upper bound of integer value v that holds whenever control is in block at.
func c01UB(fn *ssa.Function, v ssa.Value, at *ssa.BasicBlock, depth int) (int64, bool) {
	if depth > 10 {
		return 0, false
	}
	best, have := int64(0), false
	take := func(c int64) {
		if !have || c < best {
			best, have = c, true
		}
	}
	sv := c01Strip(v)
	if c, ok := constInt(sv); ok {
		return c, true
	}
	switch x := sv.(type) {
	case *ssa.Phi:
		m, all := int64(0), true
		for i, e := range x.Edges {
			c, ok := c01UB(fn, e, x.Block().Preds[i], depth+1)
			if !ok {
				all = false
				break
			}
			if i == 0 || c > m {
				m = c
			}
		}
		if all && len(x.Edges) > 0 {
			take(m)
		}
	case *ssa.BinOp:
		if x.Op == token.ADD {
			a, ok1 := c01UB(fn, x.X, at, depth+1)
			b, ok2 := c01UB(fn, x.Y, at, depth+1)
			if ok1 && ok2 {
				take(a + b)
			}
		}
	case *ssa.Call:
		if _, ok := c01IsBuiltin(x, "min"); ok {
			for _, a := range x.Call.Args {
				if c, ok := c01UB(fn, a, at, depth+1); ok {
					take(c)
				}
			}
		}
		if _, ok := c01IsBuiltin(x, "len"); ok {
			if c, ok := c01SliceLenUB(fn, x.Call.Args[0], at, depth+1); ok {
				take(c)
			}
		}
	}
	// a comparison against a constant on an edge that dominates the block
	for _, b := range fn.Blocks {
		g, ok := c01BoundOf(b)
		if !ok || !c01Geq(g.X, sv, 0) {
			continue
		}
		if edgeDominates(fn, g.Accept, at) {
			take(g.Max)
		}
	}
	return best, have
}

// c01SliceLenUB bounds len(s) from the shape of s: a constant string/array, or s = x[lo:lo+k].
func c01SliceLenUB(fn *ssa.Function, s ssa.Value, at *ssa.BasicBlock, depth int) (int64, bool) {
	switch x := s.(type) {
	case *ssa.Slice:
		if x.High != nil {
			if x.Low == nil {
				return c01UB(fn, x.High, at, depth+1)
			}
			if bo, ok := c01Strip(x.High).(*ssa.BinOp); ok && bo.Op == token.ADD {
				if c01Strip(bo.X) == c01Strip(x.Low) {
					return c01UB(fn, bo.Y, at, depth+1)
				}
				if c01Strip(bo.Y) == c01Strip(x.Low) {
					return c01UB(fn, bo.X, at, depth+1)
				}
			}
			if lo, ok := constInt(x.Low); ok && lo >= 0 {
				return c01UB(fn, x.High, at, depth+1)
			}
		}
		if x.High == nil {
			if pt, ok := x.X.Type().Underlying().(*types.Pointer); ok {
				if arr, ok := pt.Elem().Underlying().(*types.Array); ok {
					return arr.Len(), true
				}
			}
		}
	case *ssa.Const:
		if s, ok := constString(x); ok {
			return int64(len(s)), true
		}
	case *ssa.Convert:
		if s, ok := constString(x.X); ok {
			return int64(len(s)), true
		}
	}
	return 0, false
}

// c01LenUB bounds the length of the slice/string value arg as seen in block at: from its shape, or
// from any len(arg) in the function that has a bound there.
func c01LenUB(fn *ssa.Function, arg ssa.Value, at *ssa.BasicBlock) (int64, bool) {
	best, have := int64(0), false
	if c, ok := c01SliceLenUB(fn, arg, at, 0); ok {
		best, have = c, true
	}
	allInstrs(fn, func(_ *ssa.BasicBlock, _ int, in ssa.Instruction) {
		call, ok := in.(*ssa.Call)
		if !ok {
			return
		}
		if _, ok := c01IsBuiltin(call, "len"); !ok || call.Call.Args[0] != arg {
			return
		}
		if c, ok := c01UB(fn, call, at, 0); ok && (!have || c < best) {
			best, have = c, true
		}
	})
	return best, have
}

// c01MaxAddend: fn returns its integer parameter par plus a constant on every path; the result
// is the largest such constant (the worst-case additive overhead). ok=false if some return is not
// of the form par + c.
func c01MaxAddend(fn *ssa.Function, par *ssa.Parameter) (max int64, addends []int64, ok bool) {
	var eval func(v ssa.Value, d int) ([]int64, bool)
	eval = func(v ssa.Value, d int) ([]int64, bool) {
		if d > 12 {
			return nil, false
		}
		v = c01Strip(v)
		if v == ssa.Value(par) {
			return []int64{0}, true
		}
		switch x := v.(type) {
		case *ssa.Phi:
			var out []int64
			for _, e := range x.Edges {
				r, ok := eval(e, d+1)
				if !ok {
					return nil, false
				}
				out = append(out, r...)
			}
			return out, len(out) > 0
		case *ssa.BinOp:
			if x.Op != token.ADD {
				return nil, false
			}
			base, k := x.X, x.Y
			c, isC := constInt(k)
			if !isC {
				base, k = x.Y, x.X
				c, isC = constInt(k)
			}
			if !isC {
				return nil, false
			}
			r, ok := eval(base, d+1)
			if !ok {
				return nil, false
			}
			out := make([]int64, len(r))
			for i := range r {
				out[i] = r[i] + c
			}
			return out, true
		}
		return nil, false
	}
	n := 0
	for _, b := range fn.Blocks {
		if len(b.Instrs) == 0 {
			continue
		}
		ret, isRet := b.Instrs[len(b.Instrs)-1].(*ssa.Return)
		if !isRet || len(ret.Results) != 1 {
			continue
		}
		n++
		r, ok := eval(ret.Results[0], 0)
		if !ok {
			return 0, nil, false
		}
		addends = append(addends, r...)
	}
	if n == 0 || len(addends) == 0 {
		return 0, nil, false
	}
	for _, a := range addends {
		if a > max {
			max = a
		}
	}
	return max, addends, true
}

// c01ErrorEdge: every return reachable from the target of e is an error return (the edge is a
// rejection).
func (c *Ctx) c01ErrorEdge(fn *ssa.Function, e Edge) bool {
	to := e.To()
	if len(to.Instrs) == 0 {
		return false
	}
	for _, t := range c.successTargets(fn) {
		if findPath(Point{to, 0}, t.Target(), nil) != nil {
			return false
		}
	}
	return len(c.errorTargets(fn)) > 0
}

// c01ParamNamed returns the parameter called name, or the one at position pos (receiver = 0) as a
// fallback.
func c01Param(fn *ssa.Function, name string, pos int) *ssa.Parameter {
	for _, p := range fn.Params {
		if p.Name() == name {
			return p
		}
	}
	if pos >= 0 && pos < len(fn.Params) {
		return fn.Params[pos]
	}
	return nil
}

// c01BinaryMethod resolves encoding/binary.<order>.<name> (order = "BigEndian" / "LittleEndian").
func (c *Ctx) c01BinaryMethod(rule, order, name string) *types.Func {
	tp := c.PkgTypes("encoding/binary")
	if tp == nil {
		c.AnchorMissing(rule, "encoding/binary")
		return nil
	}
	v := tp.Scope().Lookup(order)
	if v == nil {
		c.AnchorMissing(rule, "encoding/binary."+order)
		return nil
	}
	obj, _, _ := types.LookupFieldOrMethod(v.Type(), false, tp, name)
	f, _ := obj.(*types.Func)
	if f == nil {
		c.AnchorMissing(rule, "encoding/binary."+order+"."+name)
	}
	return f
}

// c01ConstOf returns the integer value of a package-level constant.
func (c *Ctx) c01ConstOf(rule, rel, name string) (int64, bool) {
	o := c.needObj(rule, rel, name)
	k, ok := o.(*types.Const)
	if !ok {
		if o != nil {
			c.AnchorMissing(rule, rel+"."+name+" (not a constant)")
		}
		return 0, false
	}
	v, isC := constInt(ssa.NewConst(k.Val(), k.Type()))
	return v, isC
}
