package main

import (
	"go/token"
	"go/types"

	"golang.org/x/tools/go/ssa"
)

// ---------------------------------------------------------------------------
// C01 helpers: constant comparisons as upper bounds, a tiny upper-bound evaluator for
// integer SSA values, and the additive overhead of a "size after encryption" function.
// Nothing here is a range analysis: a bound is only ever (a) a constant, (b) the constant of a
// comparison on a dominating edge, (c) sums / phis / min() of such.

// c01Bound is an If that compares X with an integer constant: on edge Accept, X <= Max holds;
// Reject is the other edge.
type c01Bound struct {
	Block  *ssa.BasicBlock
	X      ssa.Value
	Max    int64
	Accept Edge
	Reject Edge
}

// c01BoundOf recognises "X > C", "X >= C", "X < C", "X <= C", "X == C" (constant on either side,
// any number of negations) at the end of block b.
func c01BoundOf(b *ssa.BasicBlock) (c01Bound, bool) {
	ifi := blockIf(b)
	if ifi == nil {
		return c01Bound{}, false
	}
	a := condAtom(ifi.Cond)
	if a.Op == token.ILLEGAL {
		return c01Bound{}, false
	}
	x, op := a.X, a.Op
	c, isC := constInt(a.Y)
	if !isC {
		// constant on the left: mirror the comparison
		c, isC = constInt(a.X)
		if !isC {
			return c01Bound{}, false
		}
		x = a.Y
		switch op {
		case token.GTR:
			op = token.LSS
		case token.GEQ:
			op = token.LEQ
		case token.LSS:
			op = token.GTR
		case token.LEQ:
			op = token.GEQ
		}
	}
	if _, isConst := x.(*ssa.Const); isConst {
		return c01Bound{}, false
	}
	if a.Neg { // !(x op c)  ==  x negop c
		switch op {
		case token.GTR:
			op = token.LEQ
		case token.GEQ:
			op = token.LSS
		case token.LSS:
			op = token.GEQ
		case token.LEQ:
			op = token.GTR
		case token.EQL:
			op = token.NEQ
		case token.NEQ:
			op = token.EQL
		}
	}
	t, f := Edge{b, 0}, Edge{b, 1}
	switch op {
	case token.GTR: // true: x > c ; false: x <= c
		return c01Bound{b, x, c, f, t}, true
	case token.GEQ: // false: x < c
		return c01Bound{b, x, c - 1, f, t}, true
	case token.LSS: // true: x < c
		return c01Bound{b, x, c - 1, t, f}, true
	case token.LEQ:
		return c01Bound{b, x, c, t, f}, true
	case token.EQL:
		return c01Bound{b, x, c, t, f}, true
	case token.NEQ:
		return c01Bound{b, x, c, f, t}, true
	}
	return c01Bound{}, false
}

// c01Strip removes integer conversions (a uint32 <-> int conversion of a length does not change
// the number in the ranges concerned here).
func c01Strip(v ssa.Value) ssa.Value {
	for {
		switch x := v.(type) {
		case *ssa.Convert:
			v = x.X
		case *ssa.ChangeType:
			v = x.X
		default:
			return v
		}
	}
}

func c01IsBuiltin(v ssa.Value, name string) (*ssa.Call, bool) {
	call, ok := v.(*ssa.Call)
	if !ok {
		return nil, false
	}
	b, ok := call.Call.Value.(*ssa.Builtin)
	if !ok || b.Name() != name {
		return nil, false
	}
	return call, true
}

// c01Same: a and b are the same number: identical SSA values modulo conversions, or len() of the
// same value.
func c01Same(a, b ssa.Value) bool {
	a, b = c01Strip(a), c01Strip(b)
	if a == b {
		return true
	}
	la, ok1 := c01IsBuiltin(a, "len")
	lb, ok2 := c01IsBuiltin(b, "len")
	return ok1 && ok2 && la.Call.Args[0] == lb.Call.Args[0]
}

// c01Geq: w >= v is evident from w's definition: w is v, v plus a non-negative constant, or a phi
// of such values.
func c01Geq(w, v ssa.Value, depth int) bool {
	if depth > 8 {
		return false
	}
	if c01Same(w, v) {
		return true
	}
	switch x := c01Strip(w).(type) {
	case *ssa.BinOp:
		if x.Op != token.ADD {
			return false
		}
		if c, ok := constInt(x.Y); ok && c >= 0 {
			return c01Geq(x.X, v, depth+1)
		}
		if c, ok := constInt(x.X); ok && c >= 0 {
			return c01Geq(x.Y, v, depth+1)
		}
	case *ssa.Phi:
		for _, e := range x.Edges {
			if !c01Geq(e, v, depth+1) {
				return false
			}
		}
		return len(x.Edges) > 0
	}
	return false
}

// c01UB returns an upper bound of integer value v that holds whenever control is in block at.
func c01UB(fn *ssa.Function, v ssa.Value, at *ssa.BasicBlock, depth int) (int64, bool) {
	if depth > 10 {
		return 0, false
	}
	best, have := int64(0), false
	take := func(c int64) {
		if !have || c < best {
			best, have = c, true
		}
	}
	sv := c01Strip(v)
	if c, ok := constInt(sv); ok {
		return c, true
	}
	switch x := sv.(type) {
	case *ssa.Phi:
		m, all := int64(0), true
		for i, e := range x.Edges {
			c, ok := c01UB(fn, e, x.Block().Preds[i], depth+1)
			if !ok {
				all = false
				break
			}
			if i == 0 || c > m {
				m = c
			}
		}
		if all && len(x.Edges) > 0 {
			take(m)
		}
	case *ssa.BinOp:
		if x.Op == token.ADD {
			a, ok1 := c01UB(fn, x.X, at, depth+1)
			b, ok2 := c01UB(fn, x.Y, at, depth+1)
			if ok1 && ok2 {
				take(a + b)
			}
		}
	case *ssa.Call:
		if _, ok := c01IsBuiltin(x, "min"); ok {
			for _, a := range x.Call.Args {
				if c, ok := c01UB(fn, a, at, depth+1); ok {
					take(c)
				}
			}
		}
		if _, ok := c01IsBuiltin(x, "len"); ok {
			if c, ok := c01SliceLenUB(fn, x.Call.Args[0], at, depth+1); ok {
				take(c)
			}
		}
	}
	// a comparison against a constant on an edge that dominates the block
	for _, b := range fn.Blocks {
		g, ok := c01BoundOf(b)
		if !ok || !c01Geq(g.X, sv, 0) {
			continue
		}
		if edgeDominates(fn, g.Accept, at) {
			take(g.Max)
		}
	}
	return best, have
}

// c01SliceLenUB bounds len(s) from the shape of s: a constant string/array, or s = x[lo:lo+k].
func c01SliceLenUB(fn *ssa.Function, s ssa.Value, at *ssa.BasicBlock, depth int) (int64, bool) {
	switch x := s.(type) {
	case *ssa.Slice:
		if x.High != nil {
			if x.Low == nil {
				return c01UB(fn, x.High, at, depth+1)
			}
			if bo, ok := c01Strip(x.High).(*ssa.BinOp); ok && bo.Op == token.ADD {
				if c01Strip(bo.X) == c01Strip(x.Low) {
					return c01UB(fn, bo.Y, at, depth+1)
				}
				if c01Strip(bo.Y) == c01Strip(x.Low) {
					return c01UB(fn, bo.X, at, depth+1)
				}
			}
			if lo, ok := constInt(x.Low); ok && lo >= 0 {
				return c01UB(fn, x.High, at, depth+1)
			}
		}
		if x.High == nil {
			if pt, ok := x.X.Type().Underlying().(*types.Pointer); ok {
				if arr, ok := pt.Elem().Underlying().(*types.Array); ok {
					return arr.Len(), true
				}
			}
		}
	case *ssa.Const:
		if s, ok := constString(x); ok {
			return int64(len(s)), true
		}
	case *ssa.Convert:
		if s, ok := constString(x.X); ok {
			return int64(len(s)), true
		}
	}
	return 0, false
}

// c01LenUB bounds the length of the slice/string value arg as seen in block at: from its shape, or
// from any len(arg) in the function that has a bound there.
func c01LenUB(fn *ssa.Function, arg ssa.Value, at *ssa.BasicBlock) (int64, bool) {
	best, have := int64(0), false
	if c, ok := c01SliceLenUB(fn, arg, at, 0); ok {
		best, have = c, true
	}
	allInstrs(fn, func(_ *ssa.BasicBlock, _ int, in ssa.Instruction) {
		call, ok := in.(*ssa.Call)
		if !ok {
			return
		}
		if _, ok := c01IsBuiltin(call, "len"); !ok || call.Call.Args[0] != arg {
			return
		}
		if c, ok := c01UB(fn, call, at, 0); ok && (!have || c < best) {
			best, have = c, true
		}
	})
	return best, have
}

// c01MaxAddend: fn returns its integer parameter par plus a constant on every path; the result
// is the largest such constant (the worst-case additive overhead). ok=false if some return is not
// of the form par + c. Constants may come out of same-module value helpers ("par + s.overhead()").
func c01MaxAddend(p *Prog, fn *ssa.Function, par *ssa.Parameter) (max int64, addends []int64, ok bool) {
	x := c04NewX(p)
	root := x.Root(fn)
	for _, r := range c04Returns(fn) {
		if len(r.Results) != 1 {
			continue
		}
		ts, ok := c01Terms(x, root, r.Results[0], c01Base{v: c04XV{root, par}}, 0)
		if !ok {
			return 0, nil, false
		}
		for _, t := range ts {
			if !t.par {
				return 0, nil, false
			}
			addends = append(addends, t.c)
		}
	}
	if len(addends) == 0 {
		return 0, nil, false
	}
	for _, a := range addends {
		if a > max {
			max = a
		}
	}
	return max, addends, true
}

// c01Term is base*[par] + c.
type c01Term struct {
	par bool
	c   int64
}

// c01Base names the quantity a linear form is relative to: the canonical value v itself, or (lenOf) the
// length of the canonical slice/string value v.
type c01Base struct {
	v     c04XV
	lenOf bool
}

// c01Terms evaluates integer value v (in frame fr of engine x) to the set of forms "base + c" / "c" it may
// take. Phis and multi-return value helpers yield several forms.
func c01Terms(x *c04X, fr *c04Frame, v ssa.Value, base c01Base, d int) ([]c01Term, bool) {
	if d > 14 {
		return nil, false
	}
	cv := x.CanonInt(nil, fr, v)
	if !base.lenOf && cv == base.v {
		return []c01Term{{true, 0}}, true
	}
	if base.lenOf {
		if vl, ok := c01IsBuiltin(cv.V, "len"); ok && x.Canon(nil, cv.Fr, vl.Call.Args[0]) == base.v {
			return []c01Term{{true, 0}}, true
		}
	}
	if k, ok := constInt(cv.V); ok {
		return []c01Term{{false, k}}, true
	}
	union := func(fr *c04Frame, vs []ssa.Value) ([]c01Term, bool) {
		var out []c01Term
		for _, e := range vs {
			r, ok := c01Terms(x, fr, e, base, d+1)
			if !ok {
				return nil, false
			}
			out = append(out, r...)
		}
		return out, len(out) > 0
	}
	switch t := cv.V.(type) {
	case *ssa.Phi:
		return union(cv.Fr, t.Edges)
	case *ssa.Call:
		if k := cv.Fr.EnterV(t); k != nil && k.Fn.Signature.Results().Len() == 1 {
			return union(k, c04RetOperands(x.p, k.Fn, 0))
		}
	case *ssa.Extract:
		if call, ok := t.Tuple.(*ssa.Call); ok {
			if k := cv.Fr.EnterV(call); k != nil {
				return union(k, c04RetOperands(x.p, k.Fn, t.Index))
			}
		}
	case *ssa.BinOp:
		if t.Op != token.ADD {
			return nil, false
		}
		a, ok1 := c01Terms(x, cv.Fr, t.X, base, d+1)
		b, ok2 := c01Terms(x, cv.Fr, t.Y, base, d+1)
		if !ok1 || !ok2 {
			return nil, false
		}
		var out []c01Term
		for _, p := range a {
			for _, q := range b {
				if p.par && q.par {
					return nil, false
				}
				out = append(out, c01Term{p.par || q.par, p.c + q.c})
			}
		}
		return out, true
	}
	return nil, false
}

// c01ParamNamed returns the parameter called name, or the one at position pos (receiver = 0) as a
// fallback.
func c01Param(fn *ssa.Function, name string, pos int) *ssa.Parameter {
	for _, p := range fn.Params {
		if p.Name() == name {
			return p
		}
	}
	if pos >= 0 && pos < len(fn.Params) {
		return fn.Params[pos]
	}
	return nil
}

// c01BinaryMethod resolves encoding/binary.<order>.<name> (order = "BigEndian" / "LittleEndian").
func (c *Ctx) c01BinaryMethod(rule, order, name string) *types.Func {
	tp := c.PkgTypes("encoding/binary")
	if tp == nil {
		c.AnchorMissing(rule, "encoding/binary")
		return nil
	}
	v := tp.Scope().Lookup(order)
	if v == nil {
		c.AnchorMissing(rule, "encoding/binary."+order)
		return nil
	}
	obj, _, _ := types.LookupFieldOrMethod(v.Type(), false, tp, name)
	f, _ := obj.(*types.Func)
	if f == nil {
		c.AnchorMissing(rule, "encoding/binary."+order+"."+name)
	}
	return f
}

// c01ConstOf returns the integer value of a package-level constant.
func (c *Ctx) c01ConstOf(rule, rel, name string) (int64, bool) {
	o := c.needObj(rule, rel, name)
	k, ok := o.(*types.Const)
	if !ok {
		if o != nil {
			c.AnchorMissing(rule, rel+"."+name+" (not a constant)")
		}
		return 0, false
	}
	v, isC := constInt(ssa.NewConst(k.Val(), k.Type()))
	return v, isC
}
