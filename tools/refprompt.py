#!/usr/bin/env python3
"""prints the prompt for a benign-refactoring sub-agent (false-alarm probe)."""
import sys
name, wt, files, n = sys.argv[1], sys.argv[2], sys.argv[3], sys.argv[4]
print(f"""You are helping to evaluate a code-analysis tool for false alarms. Your job is to produce small BEHAVIOUR-PRESERVING refactorings of a Go library - the kind of harmless clean-up a maintainer merges without a second thought. The tool under evaluation should stay silent on every one of them.

The library is bbockelm/cedar (Go implementation of HTCondor's CEDAR protocol). You have your own scratch git worktree at `{wt}` (detached HEAD). Work ONLY inside that directory. Do not read or write anything under /verif or /repo.

Environment for every shell call: run `export PATH=/opt/veriftools/go1.26.8/bin:$PATH GOTOOLCHAIN=local GOFLAGS=-mod=mod GOPROXY=off; unset GOWORK`. No network. Build: `go build ./...`. Tests: `go test -vet=off -count=1 ./...` (about 1.5 minutes).

Scope: the non-test source file(s) {files}. Read them first.

Produce {n} DIFFERENT refactorings, each as its own independent patch against the clean worktree (not stacked), each touching 3-40 lines. Every one must OBVIOUSLY preserve behaviour for every input, peer and schedule (no change to what is sent, accepted, rejected, locked, logged-as-side-effect-on-state, or in which order externally visible effects happen), compile, and leave the full existing test suite passing. Vary the kind; good kinds are:
 - rename local variables / parameters / unexported helpers / unexported struct fields;
 - extract a block into a new unexported helper function or method (passing what it needs), or inline a tiny helper at its only call site;
 - turn an if/else-if chain into a switch (or the reverse); invert a condition and swap the two branches; replace `if err != nil {{ return ... }}` + fallthrough by an if/else with the same returns;
 - hoist a repeated sub-expression into a local, or the reverse; introduce a named constant for a literal that is used locally (same value);
 - rewrite a counting loop as `for i := range n` (or back), `for {{ ...; if c {{ break }} }}` as `for !c {{...}}` where equivalent;
 - reorder two adjacent statements that are independent (no data or effect dependence);
 - move a function (unchanged) to another new file of the same package; split a long function into two sequential helpers;
 - change the wording of an error message or a log line; use `errors.New` instead of `fmt.Errorf` where there are no verbs; add a `%w` wrap where the error was previously formatted with `%v`;
 - replace `x == false` with `!x`, `len(s) == 0` with `len(s) < 1`, `a > b` with `b < a`; use `min`/`max` builtins for an equivalent clamp;
 - add a comment-only or debug-logging-only change.
Aim most of them at the security-sensitive, intricate parts of the file(s) (checks, guards, loops, state updates, error paths) rather than at trivial accessors, because that is where an analysis tool is most likely to be confused.

For each refactoring i (1..{n}) leave in `{wt}/.ref/<i>/`: `patch.diff` (`git diff` against the clean worktree, relative to its root) and `README.md` (one or two sentences: what was changed and why behaviour is preserved; and the test result). Run the full suite at least once per patch (you may batch: apply, test, save, `git checkout -- .` and `git clean -fd` except `.ref/`). Leave the worktree clean apart from `.ref/`. Finish with a plain-text list, one line per refactoring.""")
