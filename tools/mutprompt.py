#!/usr/bin/env python3
"""prints the prompt for a seeded-mutation sub-agent: only the property text + its scratch worktree."""
import json, sys
pid, wt = sys.argv[1], sys.argv[2]
n = sys.argv[3] if len(sys.argv) > 3 else "3"
import glob
already = ""
if len(sys.argv) > 4 and sys.argv[4] == "round2":
    tried = []
    for f in sorted(glob.glob('/verif/seeded/*/meta.json')):
        m = json.load(open(f))
        if m['property'] == pid:
            tried.append(" - " + m['breaks'])
    if tried:
        already = "ALREADY TRIED by earlier contributors (do NOT repeat these ideas or close variants of them; look at other code sites, other clauses of the property, other mechanisms):\n" + "\n".join(tried) + "\n\n"
for l in open('/verif/properties.jsonl'):
    p = json.loads(l)
    if p['id'] == pid:
        break
print(f"""You are helping to evaluate a verification effort by playing the adversary: you write small, realistic code changes (the kind a well-meaning contributor could make in a refactor, optimisation or feature patch) that BREAK a stated property of a Go library while still compiling and passing the library's existing test suite.

The library is bbockelm/cedar (Go implementation of HTCondor's CEDAR protocol). You have your own scratch git worktree of it at `{wt}` (detached HEAD). Work ONLY inside that directory (and /tmp/{pid.lower()}-scratch if you need one). Do not read or write anything under /verif or /repo — your work must be independent of the verification machinery, which you must not look at.

Environment for every shell call: run `export PATH=/opt/veriftools/go1.26.8/bin:$PATH GOTOOLCHAIN=local GOFLAGS=-mod=mod GOPROXY=off; unset GOWORK`. There is no network. Build: `go build ./...`. Tests: `go test -vet=off -count=1 ./...` (about 1.5 minutes; the message package takes ~30 s).

THE PROPERTY (id {pid}) — {p['title']}
Statement: {p['statement']}
Quantified over: {', '.join(p['quantifier']['over'])} — {p['quantifier']['text']}
Why the existing tests cannot settle it: {p['why_tests_cant']}
Anchored in files: {', '.join(p['anchors']['files'])}
Mechanisms meant to make it hold: {json.dumps(p['anchors'].get('mechanism', []))}

{already}YOUR TASK
Produce up to {n} DIFFERENT changes (different code sites or different failure mechanisms), each of which:
 1. is a small source change to non-test files of the library (typically 1–15 changed lines) that a reviewer could plausibly accept;
 2. still compiles and leaves the ENTIRE existing test suite passing (run it; unedited);
 3. makes the property above false, but only manifests under something specific — a particular interleaving, a fault or hostile peer at a particular point, a multi-step sequence of operations, an unusual input or size, or two cooperating sites that each look fine alone — NOT something ordinary use or the existing tests would expose at once;
 4. comes with a demonstration: a new Go test file (or small program) that FAILS with the change applied and PASSES on the unchanged code. Keep the demonstration deterministic.
Prefer variety: e.g. a check dropped on one rarely-taken path, a guard whose polarity or operand is subtly wrong, state updated in the wrong order, a value taken from the peer instead of local state, a second code path that bypasses a choke point, a bound that is off by a constant, a cleanup skipped on an error exit.

For each change i (1..{n}) leave these files in `{wt}/.mut/<i>/`:
  - `patch.diff`  — `git diff` of the library change only (no test files), relative to the worktree root;
  - the demonstration test file(s), with a note of where they must be placed (path relative to the repo root) in `README.md`;
  - `README.md` — which clause of the property breaks, what exactly is needed for it to manifest, the exact commands you ran and their outcome (suite passes with the change: yes/no; demonstration fails with the change and passes without: yes/no).
Never use `git stash` (the stash is shared by all worktrees of the repository; use `git diff > file` and `git checkout -- .` / `git apply` instead). Make sure the worktree itself is left clean of your change at the end (git checkout -- . ; remove added test files) except for the `.mut/` directory.
Do not waste effort on changes you cannot demonstrate. If you cannot find {n}, deliver fewer. Finish with a short plain-text summary listing each change in one or two sentences.""")
