#!/usr/bin/env python3
"""Generates /verif/MANIFEST.json. A property is claimed iff the engine registers rules for it
(engine/rules_cXX.go exists); everything else is listed under not_applicable as not yet built."""
import json, os, re, glob
HERE = os.path.dirname(os.path.dirname(os.path.abspath(__file__)))

# id -> (clauses decided, clauses declined, technique)
META = {
 "C01": ("limit arithmetic between sender guard, encryption overhead, receiver guard and the message layer's chunk sizes; frame-header symmetry (index 0 flag, big-endian length in [1:5]); end-flag discipline of EndMessage/flushPartialFrame",
         "byte-exact round trip over all sizes and chunkings",
         "constant/guard extraction from SSA + sibling agreement"),
 "C02": ("no path to a success return of the frame receivers bypasses AEAD Open (or a crypto-off edge); nonce/AAD bound to counter, IV and header; only the two receivers read the connection; end flag comes from the verified frame",
         "the fault-sequence enumeration itself; GCM's cryptographic guarantees",
         "must-pass-through on SSA CFG edges + who-may-call + must-depend slices"),
 "C03": ("local-policy gates on every success path of the handshake (authentication REQUIRED, encryption/integrity REQUIRED), offered-method membership check, reported Encryption flag = stream state, reported Authentication = what ran",
         "peer-deviation catalogue behaviours; soundness of each authentication method",
         "must-pass-through / dominance on SSA + taint from peer integers"),
 "C04": ("every cleartext frame in either direction feeds the direction's digest before the key is installed; digests frozen at key install; mirrored AAD layout; first protected message exists",
         "the relay experiment; SHA-256/GCM strength",
         "must-pass-through + who-may-write + constant slice-bound agreement"),
 "C05": ("every handler invocation is dominated by the class test and (authenticated class) the per-dispatch sessionSatisfies check on the same command inside the keep-alive loop; refusal paths close and run nothing; composition of the level check",
         "histories across connections beyond the loop structure; handler bodies",
         "edge dominance on SSA + finite table extraction"),
 "C06": ("key-or-refuse on server resumption; expiry-checked lookup only; SID_NOT_FOUND reply; identity restored from the cached policy; client requires AUTHORIZED",
         "virtual-time orderings; the replay experiment",
         "must-pass-through + value provenance + constant agreement"),
 "C07": ("filing key (tag, addr, command) = lookup key; cache dropped on resumption failure; Invalidate removes every command route; key-format agreement",
         "reference-map comparison over operation sequences",
         "sibling agreement on argument provenance + must-pass-through"),
 "C08": ("the three ClassAd receivers consume the same wire-item sequence (incl. secret marker); senders' count equals items written; interior-quote guard of the string shortcut",
         "shortcut == parser over all strings; grammar-generated ads",
         "sibling agreement on abstracted wire-item sequences"),
 "C09": ("only filtered attribute names reach PutString; option-bit decision table; both filters apply the same predicate; secrets written only inside the Prepare/Restore crypto bracket",
         "canary search over emitted bytes; private names nested in expressions",
         "dominance + finite table + bracket pairing on SSA"),
 "C10": ("the full REQUIRED/PREFERRED/OPTIONAL/NEVER decision table of negotiateSecurity vs the table the property states; client/server agreement; explicit denial; attribute-name agreement of handshake ads",
         "the live exchange after the handshake",
         "finite table extraction by conditional constant folding"),
 "C11": ("must-verify sets of the three-message token exchange on every success path; key and identity provenance; time validation on the path; standalone verifier gates",
         "bit-level tamper experiments; HMAC/HKDF correctness",
         "must-pass-through + provenance on SSA"),
 "C12": ("AES-256-GCM primitives and sizes; nonce construction def-use shape; base IV fresh and sent once; monotone counter with wrap guard and restricted writers; AAD layout",
         "opening frames with an independent codec; randomness quality",
         "constant agreement + who-may-write + must-pass-through"),
 "C13": ("peer-controlled integers never size an allocation/slice/loop without bounds; no unbounded recursion on decode paths; capped readers use capped primitives; frame limits checked before allocation",
         "totality in general; third-party parsers; allocation as a number",
         "inter-procedural taint on SSA + call-graph SCCs"),
 "C14": ("8-byte big-endian integers via one encoder/decoder pair; double = Frexp*FracConst pair in fixed order with the documented constant; NUL/length-prefix discipline of strings; refill-before-read",
         "numerical round-trip accuracy; every cut position",
         "constant/callee identity + must-pass-through"),
 "C15": ("exported field set covers the computed crypto-relevant state; exporter/importer layout agreement; verbatim restore; refusal guards for every buffering field; import rejects malformed blobs",
         "continued exchange for every history",
         "effect sets + sibling agreement + must-pass-through"),
 "C16": ("mint/import symmetry (key derivation callee and constants, policy attributes, expiry); export/import attribute tables; '#' guard and LastIndex parsing; secret never flows into the public form or logs",
         "loopback handshakes; arbitrary policy text",
         "sibling agreement + must-not-flow taint"),
 "C17": ("lockset discipline on guarded fields (same-receiver mutex held); per-connection copy of the shared security config; send/receive field partition of Stream; whole read-modify-write under the write lock; acyclic lock order",
         "schedules; the race detector's verdict; objects outside the tables",
         "lockset dataflow + ownership + effect partition"),
 "C18": ("validate-before-effect dominance in the FS client; single mkdir; validator composition; created => removed on every exit; server-side lstat/mode/owner checks",
         "the filesystem experiment; TOCTOU",
         "edge dominance + pairing (must-pass-through with defers)"),
 "C19": ("the connection is read/written only inside the two context wrappers; AfterFunc watcher registered before and stopped after each blocking call, ctx.Err() returned; caller contexts threaded to every blocking primitive",
         "promptness (time); foreign net.Conn semantics",
         "who-may-call + must-pass-through + context provenance"),
 "C20": ("every returned connection is dominated by equality of the hello's ClaimId with the request's connect id; connect id fresh from crypto/rand per attempt; non-matching connections closed; single winner in Dial",
         "arrival-order exploration; late-attempt cleanup",
         "edge dominance + must-depend provenance"),
}

import subprocess
tracked = subprocess.run(["git", "-C", HERE, "ls-files", "engine"], capture_output=True, text=True).stdout.split()
claimed = sorted(re.match(r".*rules_(c\d+)\.go", p).group(1).upper() for p in tracked if re.match(r".*rules_c\d+\.go$", p))
disabled = set()
dpath = os.path.join(HERE, "tools", "unclaimed.json")
reasons = {}
if os.path.exists(dpath):
    reasons = json.load(open(dpath))
    disabled = set(reasons)

checks, na = [], []
for pid in sorted(META):
    dec, decl, tech = META[pid]
    if pid in claimed and pid not in disabled:
        checks.append({
            "property_id": pid,
            "quick_cmd": f"./bin/check {pid} quick",
            "thorough_cmd": f"./bin/check {pid} thorough",
            "evidence_file": f"/verif/evidence/{pid}.json",
            "replay_cmd_template": f"./bin/check {pid} quick --replay {{path}}",
            "engine": "cedarcheck",
            "level_claimed": {
                "category": "other",
                "text": "Static analysis over the type-checked whole program (go/ssa, call graph): decides, on every path / call site / field access of the current source, these structural necessary conditions of the property: " + dec + ". A violated condition breaks the behaviour for a nameable input; a pass does not establish the behaviour itself.",
                "design_ref": f"DESIGN.md section 5, {pid}",
            },
            "level_note": "Not decided (outside static reach here): " + decl + ". Trusted base: Go type checker and go/ssa (x/tools v0.50.0), Go standard library, classad/jwt/gokrb5 modules. Unfollowable constructs fail closed (reported as undecided, exit 1).",
            "technique": "static analysis: " + tech,
        })
    else:
        na.append({"property_id": pid, "reason": reasons.get(pid, "static rules designed (DESIGN.md section 5) but not yet implemented in the engine at this commit; no check is registered rather than a placeholder")})

m = {
    "version": 1,
    "setup_cmd": "./bin/setup",
    "hooks": {
        "guard": "verif",
        "enable": "none needed: static analysis reads /repo's working tree directly; no instrumentation or hook commits exist",
        "baseline_off_cmd": "cd /repo && go test -vet=off -count=1 -timeout 25m ./...",
        "source_commits": [],
        "add_only": True,
    },
    "engines": [{
        "name": "cedarcheck",
        "path": "engine/",
        "serves_properties": [c["property_id"] for c in checks],
        "kind_free_text": "repository-specific static analyser: go/packages whole-program load, go/ssa, VTA call graph; rule templates must-pass-through, edge dominance, who-may-call/write, taint, sibling agreement, constant agreement, lockset, effect sets, finite table extraction",
    }],
    "checks": checks,
    "not_applicable": na,
    "notes": "All checks are static (no cedar code is executed). quick = linux/amd64 load; thorough = three GOOS/GOARCH configurations plus seeded-violation witnesses applied to scratch copies of the current tree. Known findings: known_findings.json.",
}
json.dump(m, open(os.path.join(HERE, "MANIFEST.json"), "w"), indent=1)
print("claimed:", [c["property_id"] for c in checks])
