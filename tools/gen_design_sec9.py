import json,glob,subprocess
rows=[]
for f in sorted(glob.glob('/verif/seeded/*/meta.json')):
    m=json.load(open(f))
    rows.append("| `%s` | %s | %s | %s |"%(m['id'],m['breaks'].replace('|','/'),m['needs'].replace('|','/'),m['detected_by'] or '**not detected** (declined clause, see 9.6)'))
seedtable="\n".join(rows)
k=json.load(open('/verif/known_findings.json'))
fixrows=[]
for f in k['findings']:
    if f['status']=='fixed':
        fixrows.append("| %s | `%s` | %s |"%(f['property'],f['commit'],f['what'].replace('|','/')))
fixtable="\n".join(fixrows)
ev=[]
for f in sorted(glob.glob('/verif/evidence/C*.json')):
    e=json.load(open(f)); c=e['coverage']
    rules=[r['rule'] for r in c['rules']]
    nw=len(glob.glob('/verif/witness/%s/*.patch'%e['property_id']))
    ns=len([1 for g in glob.glob('/verif/seeded/*/meta.json') if json.load(open(g))['property']==e['property_id']])
    ev.append("| %s | %s | %d | %d | %d |"%(e['property_id'],' '.join(rules),c['obligations'],nw,ns))
evtable="\n".join(ev)
text=open('/verif/tools/design_sec9.md').read().replace('@@SEEDTABLE@@',seedtable).replace('@@FIXTABLE@@',fixtable).replace('@@EVTABLE@@',evtable)
s=open('/verif/DESIGN.md').read()
marker='\n---------------------------------------------------------------------------\n\n## 9. As built'
if marker in s:
    s=s[:s.index(marker)]
s=s.rstrip('\n')+'\n'+marker+text
open('/verif/DESIGN.md','w').write(s)
print('ok', len(s))
