#!/usr/bin/env python3
import json, jsonschema, glob, sys
m = json.load(open('/verif/MANIFEST.json'))
jsonschema.validate(m, json.load(open('/root/.vp/MANIFEST.schema.json')))
es = json.load(open('/root/.vp/EVIDENCE.schema.json'))
for c in m['checks']:
    try:
        jsonschema.validate(json.load(open(c['evidence_file'])), es)
    except Exception as e:
        print('EVIDENCE INVALID', c['property_id'], str(e)[:300]); sys.exit(1)
print('manifest + %d evidence files valid' % len(m['checks']))
