# toolchain environment for every check (sourced)
_VH="$(cd "$(dirname "${BASH_SOURCE[0]}")/.." && pwd)"
mkdir -p "$_VH/.tools"
[ -e "$_VH/.tools/go" ] || ln -sf /opt/veriftools/go1.26.8/bin/go "$_VH/.tools/go"
export PATH="$_VH/.tools:/opt/veriftools/go1.26.8/bin:$PATH"
export GOTOOLCHAIN=local GOPROXY=off GOFLAGS=-mod=mod
unset GOWORK GOSUMDB
